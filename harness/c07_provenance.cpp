// C07 — every output triangle traces back to its source face and interpolated
// properties (DESIGN.md §4 C07).
//
// Oracle (independent of the library's algorithms; long double throughout):
//   registry  originalID -> the mesh a user holds for that original
//             (the MeshGL64 he imported when he supplied face IDs, otherwise
//             the original Manifold's own export, whose faceID field is the
//             library's coplanar grouping), and per program value the list of
//             instances (originalID, transform) the harness composed itself.
//   For every exported triangle of every value produced by a program:
//     * its run names a registered original (or the library's internal
//       plane-cut cube when the value descends from SplitByPlane/TrimByPlane),
//     * its faceID names a non-empty set F of source triangles,
//     * each of its 3 vertices is within B of the union of T(F), T = the run
//       transform, B = max(export tolerance, simplification slack) + rounding,
//     * its normal has positive (negative when the run is flagged back-side)
//       dot product with the outward normal of the transformed source triangle
//       it lies on — decided only when both triangles have altitude > 8B,
//     * every property channel equals the source field at T^-1 v whenever the
//       field is affine across F (least-squares fit, residual r added to the
//       bound; always decidable for single-triangle faces), within
//       G*B + 2r + rounding, G = the largest property gradient on F mapped to
//       world space; channels the source lacks are exactly 0; channels flagged
//       as normals (runFlags bit 1 => slots 3..5) are excluded,
//     * run table: contiguous, covering, non-empty runs sorted by original
//       ID, empty runs only at the tail,
//     * every non-empty run's transform is the transform of a distinct
//       expected instance of that original.
// Outside the statement's program class: values downstream of a
// Simplify/SetTolerance (the library then recomputes its coplanar grouping and
// may move vertices by the simplification tolerance) get only the run-table,
// instance and 'lies on the transformed source surface' checks.
// Witness keys: errors between 1x and 4x their bound are keyed
// ':marginal(...)'; gross errors downstream of a Boolean of operands placed a
// few epsilons apart carry ':few-epsilon-ancestry:'; witnesses downstream of a
// Refine whose operand exported tangents (nothing here creates tangents) carry
// the prefix 'phantom-tangents:' — see known_findings.d/C07.json.
#include <algorithm>
#include <array>
#include <cfloat>
#include <map>
#include <unordered_map>

#include "common/dsl.h"
#include "common/oracles.h"
#include "common/vh.h"

using namespace manifold;
typedef long double LD;
using vo::V3;

namespace {

// ------------------------------------------------------------------ affine maps
struct A34 {
  LD L[3][3];
  LD t[3];
};
A34 Ident() {
  A34 a;
  for (int r = 0; r < 3; r++) {
    for (int c = 0; c < 3; c++) a.L[r][c] = r == c ? 1 : 0;
    a.t[r] = 0;
  }
  return a;
}
A34 FromMat(const mat3x4& m) {
  A34 a;
  for (int r = 0; r < 3; r++) {
    for (int c = 0; c < 3; c++) a.L[r][c] = m[c][r];
    a.t[r] = m[3][r];
  }
  return a;
}
A34 Mul(const A34& a, const A34& b) {  // a after b
  A34 o;
  for (int r = 0; r < 3; r++) {
    for (int c = 0; c < 3; c++) {
      o.L[r][c] = 0;
      for (int k = 0; k < 3; k++) o.L[r][c] += a.L[r][k] * b.L[k][c];
    }
    o.t[r] = a.t[r];
    for (int k = 0; k < 3; k++) o.t[r] += a.L[r][k] * b.t[k];
  }
  return o;
}
V3 Apply(const A34& a, V3 p) {
  return {a.L[0][0] * p.x + a.L[0][1] * p.y + a.L[0][2] * p.z + a.t[0],
          a.L[1][0] * p.x + a.L[1][1] * p.y + a.L[1][2] * p.z + a.t[1],
          a.L[2][0] * p.x + a.L[2][1] * p.y + a.L[2][2] * p.z + a.t[2]};
}
LD Det(const A34& a) {
  return a.L[0][0] * (a.L[1][1] * a.L[2][2] - a.L[1][2] * a.L[2][1]) - a.L[0][1] * (a.L[1][0] * a.L[2][2] - a.L[1][2] * a.L[2][0]) +
         a.L[0][2] * (a.L[1][0] * a.L[2][1] - a.L[1][1] * a.L[2][0]);
}
LD Frob(const A34& a) {
  LD s = 0;
  for (int r = 0; r < 3; r++)
    for (int c = 0; c < 3; c++) s += a.L[r][c] * a.L[r][c];
  return sqrtl(s);
}
bool Inverse(const A34& a, A34& o) {
  LD d = Det(a);
  LD f = Frob(a);
  if (!(fabsl(d) > 1e-30L * f * f * f) || !std::isfinite((double)d)) return false;
  const LD(*m)[3] = a.L;
  o.L[0][0] = (m[1][1] * m[2][2] - m[1][2] * m[2][1]) / d;
  o.L[0][1] = (m[0][2] * m[2][1] - m[0][1] * m[2][2]) / d;
  o.L[0][2] = (m[0][1] * m[1][2] - m[0][2] * m[1][1]) / d;
  o.L[1][0] = (m[1][2] * m[2][0] - m[1][0] * m[2][2]) / d;
  o.L[1][1] = (m[0][0] * m[2][2] - m[0][2] * m[2][0]) / d;
  o.L[1][2] = (m[0][2] * m[1][0] - m[0][0] * m[1][2]) / d;
  o.L[2][0] = (m[1][0] * m[2][1] - m[1][1] * m[2][0]) / d;
  o.L[2][1] = (m[0][1] * m[2][0] - m[0][0] * m[2][1]) / d;
  o.L[2][2] = (m[0][0] * m[1][1] - m[0][1] * m[1][0]) / d;
  for (int r = 0; r < 3; r++) {
    o.t[r] = 0;
    for (int k = 0; k < 3; k++) o.t[r] -= o.L[r][k] * a.t[k];
  }
  return true;
}
mat3x4 ToMat(const A34& a) {
  mat3x4 m;
  for (int r = 0; r < 3; r++) {
    for (int c = 0; c < 3; c++) m[c][r] = (double)a.L[r][c];
    m[3][r] = (double)a.t[r];
  }
  return m;
}
std::string MatStr(const A34& a) {
  std::ostringstream o;
  o.precision(17);
  for (int r = 0; r < 3; r++) o << (r ? ";" : "") << (double)a.L[r][0] << "," << (double)a.L[r][1] << "," << (double)a.L[r][2] << "," << (double)a.t[r];
  return o.str();
}

V3 Pos(const MeshGL64& m, size_t v) { return {m.vertProperties[v * m.numProp], m.vertProperties[v * m.numProp + 1], m.vertProperties[v * m.numProp + 2]}; }
std::string P3(V3 p) {
  char b[120];
  snprintf(b, sizeof b, "(%.17g,%.17g,%.17g)", (double)p.x, (double)p.y, (double)p.z);
  return b;
}

// ------------------------------------------------------------------ registry
struct FaceInfo {
  std::vector<uint32_t> tris;
  bool fitted = false;
  bool planar = false;      // vertices within 1e-9*diam of the plane of the largest triangle
  bool gradFinite = false;  // no degenerate triangle in the face
  V3 p0{0, 0, 0};
  // per extra channel: value ~ c + g.(p-p0)
  std::vector<std::array<LD, 4>> fit;
  std::vector<LD> resid, grad, vscale;
  std::vector<char> affine;
};
struct Orig {
  uint32_t id = 0;
  MeshGL64 src;
  int nExtra = 0;
  std::string desc;
  std::unordered_map<uint64_t, FaceInfo> faces;
  LD maxAbs = 0;
  bool built = false;
  bool userFaceIDs = false;  // face IDs were supplied by the user (kept verbatim by every operation)
  FaceInfo whole;            // all triangles: used when the library's own grouping has been recomputed
  void build() {
    if (built) return;
    built = true;
    size_t nt = src.triVerts.size() / 3;
    for (size_t t = 0; t < nt; t++) {
      uint64_t f = src.faceID.empty() ? t : (uint64_t)src.faceID[t];
      faces[f].tris.push_back((uint32_t)t);
      whole.tris.push_back((uint32_t)t);
    }
    for (size_t i = 0; i < src.vertProperties.size() / src.numProp; i++)
      for (int k = 0; k < 3; k++) maxAbs = std::max(maxAbs, fabsl((LD)src.vertProperties[i * src.numProp + k]));
  }
};

void FitFace(const Orig& o, FaceInfo& F) {
  if (F.fitted) return;
  F.fitted = true;
  const MeshGL64& s = o.src;
  const int ne = o.nExtra;
  F.fit.assign(ne, {0, 0, 0, 0});
  F.resid.assign(ne, 0);
  F.grad.assign(ne, 0);
  F.vscale.assign(ne, 0);
  F.affine.assign(ne, 0);
  // largest triangle -> plane basis
  LD bestA = -1;
  V3 e1{0, 0, 0}, e2{0, 0, 0}, n{0, 0, 0};
  F.gradFinite = true;
  for (uint32_t t : F.tris) {
    V3 a = Pos(s, s.triVerts[3 * t]), b = Pos(s, s.triVerts[3 * t + 1]), c = Pos(s, s.triVerts[3 * t + 2]);
    V3 nn = vo::cross(b - a, c - a);
    LD A = vo::norm(nn);
    if (!(A > 0)) F.gradFinite = false;
    if (A > bestA) {
      bestA = A;
      F.p0 = a;
      n = nn;
      e1 = b - a;
    }
  }
  if (!(bestA > 0)) return;
  e1 = e1 * (1 / vo::norm(e1));
  n = n * (1 / vo::norm(n));
  e2 = vo::cross(n, e1);
  LD diam = 0, off = 0;
  for (uint32_t t : F.tris)
    for (int k = 0; k < 3; k++) {
      V3 d = Pos(s, s.triVerts[3 * t + k]) - F.p0;
      diam = std::max(diam, vo::norm(d));
      off = std::max(off, fabsl(vo::dot(d, n)));
    }
  F.planar = off <= 1e-9L * diam;
  if (ne == 0) return;
  // per-triangle gradients (exact) and the least-squares fit per channel
  for (int ch = 0; ch < ne; ch++) {
    LD S[3][3] = {{0, 0, 0}, {0, 0, 0}, {0, 0, 0}}, R[3] = {0, 0, 0};
    LD vs = 0, G = 0;
    for (uint32_t t : F.tris) {
      V3 p[3];
      LD val[3];
      for (int k = 0; k < 3; k++) {
        size_t v = s.triVerts[3 * t + k];
        p[k] = Pos(s, v);
        val[k] = s.vertProperties[v * s.numProp + 3 + ch];
        vs = std::max(vs, fabsl(val[k]));
        V3 d = p[k] - F.p0;
        LD x = vo::dot(d, e1), y = vo::dot(d, e2);
        LD row[3] = {1, x, y};
        for (int i = 0; i < 3; i++) {
          for (int j = 0; j < 3; j++) S[i][j] += row[i] * row[j];
          R[i] += row[i] * val[k];
        }
      }
      V3 a1 = p[1] - p[0], a2 = p[2] - p[0];
      V3 nn = vo::cross(a1, a2);
      LD n2 = vo::dot(nn, nn);
      if (n2 > 0) {
        V3 g = (vo::cross(a2, nn) * (val[1] - val[0]) + vo::cross(nn, a1) * (val[2] - val[0])) * (1 / n2);
        G = std::max(G, vo::norm(g));
      }
    }
    F.vscale[ch] = vs;
    LD det = S[0][0] * (S[1][1] * S[2][2] - S[1][2] * S[2][1]) - S[0][1] * (S[1][0] * S[2][2] - S[1][2] * S[2][0]) + S[0][2] * (S[1][0] * S[2][1] - S[1][1] * S[2][0]);
    LD tr = S[0][0] + S[1][1] + S[2][2];
    if (!(fabsl(det) > 1e-24L * tr * tr * tr) || !F.planar || !F.gradFinite) continue;
    auto det3 = [](LD a[3][3]) {
      return a[0][0] * (a[1][1] * a[2][2] - a[1][2] * a[2][1]) - a[0][1] * (a[1][0] * a[2][2] - a[1][2] * a[2][0]) + a[0][2] * (a[1][0] * a[2][1] - a[1][1] * a[2][0]);
    };
    LD sol[3];
    for (int j = 0; j < 3; j++) {
      LD M[3][3];
      for (int i = 0; i < 3; i++)
        for (int k = 0; k < 3; k++) M[i][k] = k == j ? R[i] : S[i][k];
      sol[j] = det3(M) / det;
    }
    V3 g = e1 * sol[1] + e2 * sol[2];
    LD res = 0;
    for (uint32_t t : F.tris)
      for (int k = 0; k < 3; k++) {
        size_t v = s.triVerts[3 * t + k];
        LD pred = sol[0] + vo::dot(g, Pos(s, v) - F.p0);
        res = std::max(res, fabsl(pred - (LD)s.vertProperties[v * s.numProp + 3 + ch]));
      }
    F.fit[ch] = {sol[0], g.x, g.y, g.z};
    F.resid[ch] = res;
    F.grad[ch] = std::max(G, vo::norm(g));
    F.affine[ch] = res <= 1e-6L * vs || res == 0;
  }
}

// ------------------------------------------------------------------ program state
struct Inst {
  uint32_t id;
  A34 T;
};
struct Val {
  Manifold m;
  std::string how;
  std::vector<Inst> insts;
  double slack = 0;  // largest simplification tolerance applied upstream, mapped through later transforms
  bool planeCut = false;
  // a tolerance-raising Simplify/SetTolerance upstream made the library recompute its coplanar grouping
  // (SetNormalsAndCoplanar relabels every coplanarID), so library face IDs no longer refer to the original's grouping
  bool regrouped = false;
  // some Boolean upstream combined operands placed a few epsilons apart (nearly coincident surfaces)
  bool nearEps = false;
  // a Refine upstream ran on an operand that carried a halfedgeTangent array although nothing in this
  // workload creates tangents (CsgLeafNode::Compose allocates an all-zero one): Refine then treats the
  // mesh as smooth. Witnesses downstream get their own key prefix.
  bool phantom = false;
  size_t tris = 0;
  bool checkedOK = false;
};

struct Prog {
  vh::Ctx& c;
  vh::Rng& r;
  std::map<uint32_t, Orig> reg;
  Orig cutter;  // the library's internal halfspace cube (anonymous original)
  std::vector<Val> pool;
  std::vector<std::string> log;
  size_t maxTris;
  explicit Prog(vh::Ctx& ctx) : c(ctx), r(ctx.rng) {
    maxTris = (size_t)c.iparam("maxTris", 1500);
    cutter.src = Manifold::Cube(vec3(2.0), true).GetMeshGL64();
    cutter.nExtra = 0;
    cutter.desc = "internal plane-cut cube";
    cutter.build();
  }
  std::string programJson(size_t cap = 60) const {
    std::string s = "[";
    size_t start = log.size() > cap ? log.size() - cap : 0;
    for (size_t i = start; i < log.size(); i++) s += (i > start ? ",\"" : "\"") + vh::jesc(log[i]) + "\"";
    return s + "]";
  }
  int add(Val v) {
    pool.push_back(std::move(v));
    log.push_back("v" + std::to_string(pool.size() - 1) + " = " + pool.back().how);
    static const bool trace = getenv("VERIF_TRACE") != nullptr;
    if (trace) fprintf(stderr, "TRACE %s\n", log.back().c_str());
    return (int)pool.size() - 1;
  }
  double size() { return r.chance(0.12) ? pow(10.0, r.uni(-2, 2)) : r.uni(0.4, 2.5); }
  vec3 rv(double s) { return vec3(r.uni(-s, s), r.uni(-s, s), r.uni(-s, s)); }

  // ---------------------------------------------------------------- originals
  Manifold baseShape(std::string& d, size_t& tris) {
    int k = r.range(0, 7);
    switch (k) {
      case 0: case 1: {
        vec3 s(size(), size(), size());
        d = "Cube" + vd::fmt(s);
        tris = 12;
        return Manifold::Cube(s, r.chance(0.5));
      }
      case 2: d = "Tetrahedron"; tris = 4; return Manifold::Tetrahedron();
      case 3: {
        double rad = size();
        int seg = 4 * r.range(1, 4);
        d = "Sphere(" + vd::fmt(rad) + "," + std::to_string(seg) + ")";
        tris = (size_t)seg * seg / 2 + 8;
        return Manifold::Sphere(rad, seg);
      }
      case 4: {
        double h = size(), r1 = size(), r2 = r.chance(0.4) ? -1.0 : size();
        int seg = r.range(3, 14);
        d = "Cylinder(" + vd::fmt(h) + "," + vd::fmt(r1) + "," + vd::fmt(r2) + "," + std::to_string(seg) + ")";
        tris = 4 * seg;
        return Manifold::Cylinder(h, r1, r2, seg, r.chance(0.5));
      }
      case 5: {
        int n = r.range(3, 9);
        double rad = size(), h = size();
        bool hole = r.chance(0.3);
        Polygons p = vd::StarPolygon(r, n, rad, hole);
        int div = r.range(0, 2);
        d = "Extrude(star" + std::to_string(n) + (hole ? "+hole" : "") + ",r=" + vd::fmt(rad) + ",h=" + vd::fmt(h) + ",div=" + std::to_string(div) + ")";
        tris = (size_t)(n + 6) * 2 * (div + 2);
        return Manifold::Extrude(p, h, div);
      }
      case 6: {
        vec3 s(size(), size(), size());
        int n = r.range(2, 3);
        d = "Cube" + vd::fmt(s) + ".Refine(" + std::to_string(n) + ")";
        tris = 12 * n * n;
        return Manifold::Cube(s, true).Refine(n);
      }
      default: {
        int n = r.range(3, 7);
        double rad = size();
        Polygons p = vd::StarPolygon(r, n, rad, false);
        double off = rad * r.uni(1.6, 3.0);
        for (auto& q : p[0]) q.x += off;
        int seg = r.range(3, 10);
        d = "Revolve(star" + std::to_string(n) + ",r=" + vd::fmt(rad) + ",xoff=" + vd::fmt(off) + ",seg=" + std::to_string(seg) + ")";
        tris = (size_t)n * seg * 2;
        return Manifold::Revolve(p, seg);
      }
    }
  }

  A34 randomAffine(bool allowMirror, std::string& d) {
    // rotation (harness's own) * scale (possibly mirrored, possibly sheared) + translation
    A34 a = Ident();
    LD ax = r.uni(-3.2, 3.2), ay = r.uni(-3.2, 3.2), az = r.uni(-3.2, 3.2);
    A34 rx = Ident(), ry = Ident(), rz = Ident();
    rx.L[1][1] = cosl(ax); rx.L[1][2] = -sinl(ax); rx.L[2][1] = sinl(ax); rx.L[2][2] = cosl(ax);
    ry.L[0][0] = cosl(ay); ry.L[0][2] = sinl(ay); ry.L[2][0] = -sinl(ay); ry.L[2][2] = cosl(ay);
    rz.L[0][0] = cosl(az); rz.L[0][1] = -sinl(az); rz.L[1][0] = sinl(az); rz.L[1][1] = cosl(az);
    A34 s = Ident();
    for (int k = 0; k < 3; k++) s.L[k][k] = r.uni(0.4, 2.2);
    if (allowMirror && r.chance(0.3)) s.L[r.range(0, 2)][r.range(0, 2)] *= -1;
    if (r.chance(0.3)) s.L[0][1] = r.uni(-0.4, 0.4);
    a = Mul(rz, Mul(ry, Mul(rx, s)));
    for (int k = 0; k < 3; k++) a.t[k] = r.uni(-1.5, 1.5);
    // round to double so that the library and the harness hold the same matrix
    a = FromMat(ToMat(a));
    d = "Transform(" + MatStr(a) + ")";
    return a;
  }

  void registerOrig(uint32_t id, MeshGL64 src, const std::string& desc, bool userFaceIDs = false) {
    Orig o;
    o.id = id;
    o.userFaceIDs = userFaceIDs;
    o.nExtra = (int)src.numProp - 3;
    o.src = std::move(src);
    o.desc = desc;
    o.build();
    reg[id] = std::move(o);
    c.count("originals_registered");
  }

  // A primitive baked under a generic transform, exported, decorated with
  // property channels / face IDs / a reserved ID, and imported.
  int importOriginal() {
    std::string d, td;
    size_t tris;
    Manifold base = baseShape(d, tris);
    if (r.chance(0.8)) base = base.Transform(ToMat(randomAffine(true, td)));
    MeshGL64 g = base.GetMeshGL64();
    if (base.Status() != Manifold::Error::NoError || g.triVerts.empty()) return primitiveOriginal();
    const size_t nt = g.triVerts.size() / 3, nv0 = g.vertProperties.size() / 3;
    int extra = r.chance(0.15) ? 0 : r.range(1, 6);
    int pmode = r.range(0, 2);  // 0 global affine, 1 per-vertex random (continuous, not affine), 2 per-corner random (seams on every edge)
    bool perTri = r.chance(0.5), pairs = !perTri && r.chance(0.3);
    if (pmode == 2 && extra == 0) pmode = 0;
    std::string desc = "Import(" + d + (td.empty() ? "" : "." + td) + ",props=" + std::to_string(extra);
    MeshGL64 in;
    in.numProp = 3 + extra;
    in.tolerance = 0;
    if (pmode == 2) {
      // every triangle gets its own three vertices; merge vectors restore the topology
      in.vertProperties.reserve(nt * 3 * in.numProp);
      in.triVerts.resize(nt * 3);
      std::vector<long> first(nv0, -1);
      for (size_t t = 0; t < nt; t++)
        for (int k = 0; k < 3; k++) {
          size_t v = g.triVerts[3 * t + k], nvNew = 3 * t + k;
          for (int j = 0; j < 3; j++) in.vertProperties.push_back(g.vertProperties[3 * v + j]);
          for (int j = 0; j < extra; j++) in.vertProperties.push_back(r.uni(-2, 2));
          in.triVerts[3 * t + k] = nvNew;
          if (first[v] < 0) first[v] = (long)nvNew;
          else { in.mergeFromVert.push_back(nvNew); in.mergeToVert.push_back((uint64_t)first[v]); }
        }
      desc += ",per-corner-random";
    } else {
      in.triVerts = g.triVerts;
      in.vertProperties.resize(nv0 * in.numProp);
      std::vector<vec3> a(extra);
      std::vector<double> b(extra);
      for (int k = 0; k < extra; k++) { a[k] = rv(2); b[k] = r.uni(-1, 1); }
      for (size_t v = 0; v < nv0; v++) {
        vec3 p(g.vertProperties[3 * v], g.vertProperties[3 * v + 1], g.vertProperties[3 * v + 2]);
        for (int k = 0; k < 3; k++) in.vertProperties[v * in.numProp + k] = p[k];
        for (int k = 0; k < extra; k++) in.vertProperties[v * in.numProp + 3 + k] = pmode == 0 ? la::dot(a[k], p) + b[k] : r.uni(-2, 2);
      }
      desc += pmode == 0 ? ",global-affine" : ",per-vertex-random";
      // PARTIAL property seams: a few corners get their own property vertex
      // (same position, other values, tied back by the merge vectors) while the
      // other end of the flanking edges stays shared - the end point of a UV /
      // colour seam path. Per-triangle face IDs keep every face decidable.
      // Opt-in (stage param partialSeams=1, not part of the registered check):
      // on the unchanged tree such originals trigger unexplained property
      // errors at thorough depth (see DESIGN.md 9.5), so the registered stages
      // keep them off; the rng draw is only made when the option is on, so the
      // default workload is the one the harness author validated.
      if (extra > 0 && c.iparam("partialSeams", 0) != 0 && r.chance(0.4)) {
        int k = r.range(1, 6);
        for (int q = 0; q < k; q++) {
          size_t t = r.below(nt);
          int kk = r.range(0, 2);
          uint64_t v = in.triVerts[3 * t + kk];
          if (v >= nv0) continue;  // already a duplicate
          uint64_t nvNew = in.vertProperties.size() / in.numProp;
          for (size_t j = 0; j < in.numProp; j++) in.vertProperties.push_back(in.vertProperties[v * in.numProp + j]);
          for (int j = 0; j < extra; j++) in.vertProperties[nvNew * in.numProp + 3 + j] += r.uni(1, 10) * (r.chance(0.5) ? 1 : -1);
          in.triVerts[3 * t + kk] = nvNew;
          if (r.chance(0.5))  // extend the seam over one more triangle of the fan
            for (size_t t2 = 0; t2 < nt; t2++) {
              if (t2 == t) continue;
              bool done = false;
              for (int j = 0; j < 3; j++)
                if (in.triVerts[3 * t2 + j] == v) { in.triVerts[3 * t2 + j] = nvNew; done = true; }
              if (done) break;
            }
          in.mergeFromVert.push_back(nvNew);
          in.mergeToVert.push_back(v);
        }
        perTri = true;
        pairs = false;
        desc += ",partial-seams";
        c.count("originals_with_partial_seams");
      }
    }
    if (perTri || pairs) {
      in.faceID.resize(nt);
      uint64_t base0 = r.chance(0.5) ? 0 : 1000 + r.below(1000);
      for (size_t t = 0; t < nt; t++) in.faceID[t] = base0 + (perTri ? t : t / 2);
      desc += perTri ? ",faceID=per-tri" : ",faceID=pairs";
    }
    bool reserved = r.chance(0.7);
    if (reserved) {
      uint32_t id = Manifold::ReserveIDs(1);
      in.runOriginalID = {id};
      in.runIndex = {0, in.triVerts.size()};
      desc += ",reservedID";
    }
    bool f32 = r.chance(0.15);
    Manifold m;
    MeshGL64 held = in;  // what the user holds
    if (f32) {
      MeshGL f;
      f.numProp = (uint32_t)in.numProp;
      f.vertProperties.assign(in.vertProperties.begin(), in.vertProperties.end());
      f.triVerts.assign(in.triVerts.begin(), in.triVerts.end());
      f.mergeFromVert.assign(in.mergeFromVert.begin(), in.mergeFromVert.end());
      f.mergeToVert.assign(in.mergeToVert.begin(), in.mergeToVert.end());
      f.runIndex.assign(in.runIndex.begin(), in.runIndex.end());
      f.runOriginalID = in.runOriginalID;
      f.faceID.assign(in.faceID.begin(), in.faceID.end());
      for (size_t i = 0; i < held.vertProperties.size(); i++) held.vertProperties[i] = (double)f.vertProperties[i];
      c.site("Manifold(MeshGL)");
      m = Manifold(f);
      desc += ",MeshGL)";
    } else {
      c.site("Manifold(MeshGL64)");
      m = Manifold(in);
      desc += ",MeshGL64)";
    }
    if (m.Status() != Manifold::Error::NoError || m.IsEmpty()) {
      c.count("import_rejected");
      return primitiveOriginal();
    }
    MeshGL64 own = m.GetMeshGL64();
    if (own.runOriginalID.size() != 1) {
      c.violation("import:not-a-single-run", vh::J().s("desc", desc).raw("export", vo::MeshBrief(own)).str());
      return primitiveOriginal();
    }
    uint32_t id = own.runOriginalID[0];
    if (reserved && id != in.runOriginalID[0]) {
      c.violation("import:reserved-id-not-kept", vh::J().s("desc", desc).u("given", in.runOriginalID[0]).u("got", id).str());
      return primitiveOriginal();
    }
    // the source: the user's own mesh when he supplied face IDs, else the
    // import's export (its faceID field is the library's coplanar grouping)
    if (!in.faceID.empty()) registerOrig(id, held, desc, true);
    else registerOrig(id, own, desc);
    Val v;
    v.m = m;
    v.how = desc;
    v.insts = {{id, Ident()}};
    v.tris = nt;
    c.count(std::string("orig_") + (pmode == 0 ? "affine" : pmode == 1 ? "pervertex" : "percorner"));
    return add(std::move(v));
  }

  int primitiveOriginal() {
    std::string d;
    size_t tris;
    Manifold m = baseShape(d, tris);
    int id = m.OriginalID();
    if (m.Status() != Manifold::Error::NoError || m.IsEmpty() || id < 0) {
      m = Manifold::Cube();
      d = "Cube()";
      tris = 12;
      id = m.OriginalID();
    }
    registerOrig((uint32_t)id, m.GetMeshGL64(), d);
    Val v;
    v.m = m;
    v.how = d;
    v.insts = {{(uint32_t)id, Ident()}};
    v.tris = tris;
    c.count("orig_primitive");
    return add(std::move(v));
  }

  int leaf() { return r.chance(0.7) ? importOriginal() : primitiveOriginal(); }

  // ---------------------------------------------------------------- steps
  Val xform(const Val& a, const std::string& A, const Manifold& m, const A34& M, const std::string& d) {
    Val v;
    v.m = m;
    v.how = A + "." + d;
    for (auto& i : a.insts) v.insts.push_back({i.id, Mul(M, i.T)});
    v.slack = a.slack * (double)Frob(M);
    v.planeCut = a.planeCut;
    v.regrouped = a.regrouped;
    v.nearEps = a.nearEps;
    v.phantom = a.phantom;
    v.tris = a.tris;
    return v;
  }
  Val randomTransform(const Val& a, const std::string& A, bool mild = false) {
    int k = r.range(0, mild ? 1 : 5);
    switch (k) {
      case 0: {
        vec3 t = rv(1.5);
        A34 M = Ident();
        for (int i = 0; i < 3; i++) M.t[i] = t[i];
        return xform(a, A, a.m.Translate(t), M, "Translate" + vd::fmt(t));
      }
      case 1: {
        vec3 e = r.chance(0.3) ? vec3(90.0 * r.range(-3, 3), 90.0 * r.range(-3, 3), 90.0 * r.range(-3, 3)) : vec3(r.uni(-180, 180), r.uni(-180, 180), r.uni(-180, 180));
        const LD d2r = 3.14159265358979323846264338327950288L / 180;
        LD ax = e.x * d2r, ay = e.y * d2r, az = e.z * d2r;
        A34 rx = Ident(), ry = Ident(), rz = Ident();
        rx.L[1][1] = cosl(ax); rx.L[1][2] = -sinl(ax); rx.L[2][1] = sinl(ax); rx.L[2][2] = cosl(ax);
        ry.L[0][0] = cosl(ay); ry.L[0][2] = sinl(ay); ry.L[2][0] = -sinl(ay); ry.L[2][2] = cosl(ay);
        rz.L[0][0] = cosl(az); rz.L[0][1] = -sinl(az); rz.L[1][0] = sinl(az); rz.L[1][1] = cosl(az);
        return xform(a, A, a.m.Rotate(e.x, e.y, e.z), Mul(rz, Mul(ry, rx)), "Rotate" + vd::fmt(e));
      }
      case 2: {
        vec3 s = r.chance(0.4) ? vec3(r.uni(0.3, 2.5)) : vec3(r.uni(0.3, 2.5), r.uni(0.3, 2.5), r.uni(0.3, 2.5));
        if (r.chance(0.3)) s[r.range(0, 2)] *= -1;
        A34 M = Ident();
        for (int i = 0; i < 3; i++) M.L[i][i] = s[i];
        return xform(a, A, a.m.Scale(s), M, "Scale" + vd::fmt(s));
      }
      case 3: {
        vec3 n = r.chance(0.4) ? vec3(r.range(0, 1), r.range(0, 1), 1) : rv(1.0);
        if (la::length(n) == 0) n = vec3(0, 0, 1);
        LD len = sqrtl((LD)n.x * n.x + (LD)n.y * n.y + (LD)n.z * n.z);
        LD u[3] = {n.x / len, n.y / len, n.z / len};
        A34 M = Ident();
        for (int i = 0; i < 3; i++)
          for (int j = 0; j < 3; j++) M.L[i][j] -= 2 * u[i] * u[j];
        return xform(a, A, a.m.Mirror(n), M, "Mirror" + vd::fmt(n));
      }
      default: {
        std::string d;
        A34 M = randomAffine(true, d);
        return xform(a, A, a.m.Transform(ToMat(M)), M, d);
      }
    }
  }
  // position b relative to a; returns the placed value
  Val place(const Val& b, const std::string& B, const Val& a) {
    double u = r.uni();
    if (u < 0.6) {  // general position: rotate + translate
      Val t = randomTransform(b, B, false);
      return t;
    }
    if (u < 0.85) {  // coincident
      int k = r.range(0, 3);
      if (k == 0) { Val v = b; v.how = B + "(same pose)"; return v; }
      if (k == 1) {
        int q = r.range(1, 3);
        const LD ang = q * 3.14159265358979323846264338327950288L / 2;
        A34 M = Ident();
        M.L[0][0] = cosl(ang); M.L[0][1] = -sinl(ang); M.L[1][0] = sinl(ang); M.L[1][1] = cosl(ang);
        // Rotate by multiples of 90 degrees is exact in the library (cosd/sind); mirror that here
        for (int i = 0; i < 3; i++)
          for (int j = 0; j < 3; j++) M.L[i][j] = roundl(M.L[i][j]);
        return xform(b, B, b.m.Rotate(0, 0, 90.0 * q), M, "Rotate(0,0," + std::to_string(90 * q) + ")");
      }
      Box bb = a.m.BoundingBox();
      vec3 s = bb.Size();
      int ax = r.range(0, 2);
      vec3 t(0.0);
      t[ax] = (r.chance(0.5) ? 1 : -1) * (k == 2 ? s[ax] : s[ax] / 2);
      if (!std::isfinite(t[ax])) t[ax] = 0;
      A34 M = Ident();
      for (int i = 0; i < 3; i++) M.t[i] = t[i];
      return xform(b, B, b.m.Translate(t), M, "Translate" + vd::fmt(t));
    }
    // near-degenerate: a few epsilons
    double e = a.m.GetEpsilon();
    if (!std::isfinite(e) || e <= 0) e = 1e-12;
    vec3 t = rv(1.0) * (e * r.range(1, 8));
    A34 M = Ident();
    for (int i = 0; i < 3; i++) M.t[i] = t[i];
    Val pv = xform(b, B, b.m.Translate(t), M, "Translate" + vd::fmt(t));
    pv.nearEps = true;
    return pv;
  }
  int pickBiased() {
    if (r.chance(0.6) && pool.size() > 2) return (int)pool.size() - 1 - (int)r.below(std::min<size_t>(3, pool.size()));
    return (int)r.below(pool.size());
  }
  static void append(std::vector<Inst>& to, const std::vector<Inst>& from) { to.insert(to.end(), from.begin(), from.end()); }

  std::vector<int> step() {
    if (pool.empty() || (pool.size() < 3 && r.chance(0.7)) || r.chance(0.12)) return {leaf()};
    int op = r.range(0, 19);
    int ia = pickBiased();
    Val a = pool[ia];
    std::string A = "v" + std::to_string(ia);
    auto tooBig = [&](size_t t) { return t > maxTris; };
    static const char* on[] = {"Add", "Subtract", "Intersect"};
    switch (op) {
      case 0: case 1: case 2: case 3: case 4: case 5: {  // Boolean
        int ib = (int)r.below(pool.size());
        if (tooBig(a.tris + pool[ib].tris)) return {leaf()};
        Val b = place(pool[ib], "v" + std::to_string(ib), a);
        OpType ot = (OpType)r.range(0, 2);
        Val v;
        c.site(std::string("Boolean:") + on[(int)ot]);
        v.m = a.m.Boolean(b.m, ot);
        v.how = A + ".Boolean(" + b.how + "," + on[(int)ot] + ")";
        v.insts = a.insts;
        append(v.insts, b.insts);
        v.slack = std::max(a.slack, b.slack);
        v.planeCut = a.planeCut || b.planeCut;
        v.regrouped = a.regrouped || b.regrouped;
        v.nearEps = a.nearEps || b.nearEps;
        v.phantom = a.phantom || b.phantom;
        v.tris = (a.tris + b.tris) * 2 + 16;
        return {add(std::move(v))};
      }
      case 6: {  // BatchBoolean / Compose
        int n = r.range(2, 5);
        bool compose = r.chance(0.35);
        std::vector<Manifold> ms;
        Val v;
        size_t tot = 0;
        std::string d = compose ? "Compose([" : "BatchBoolean([";
        double dx = 0;
        for (int i = 0; i < n; i++) {
          int j = (int)r.below(pool.size());
          Val b;
          if (compose) {
            // disjoint by construction: shift along x past the previous bounding boxes
            Box bb = pool[j].m.BoundingBox();
            double shift = dx - bb.min.x;
            if (!std::isfinite(shift)) shift = 0;
            A34 M = Ident();
            M.t[0] = shift;
            b = xform(pool[j], "v" + std::to_string(j), pool[j].m.Translate({shift, 0, 0}), M, "Translate(" + vd::fmt(shift) + ",0,0)");
            double w = bb.max.x - bb.min.x;
            dx += (std::isfinite(w) ? w : 0) + r.uni(0.1, 1.0);
          } else
            b = place(pool[j], "v" + std::to_string(j), a);
          ms.push_back(b.m);
          append(v.insts, b.insts);
          v.slack = std::max(v.slack, b.slack);
          v.planeCut = v.planeCut || b.planeCut;
          v.regrouped = v.regrouped || b.regrouped;
          v.nearEps = v.nearEps || b.nearEps;
          v.phantom = v.phantom || b.phantom;
          tot += pool[j].tris;
          d += b.how + (i + 1 < n ? "," : "");
        }
        if (tooBig(tot)) return {leaf()};
        OpType ot = (OpType)r.range(0, 2);
        c.site(compose ? "Compose" : std::string("BatchBoolean:") + on[(int)ot]);
        v.m = compose ? Manifold::Compose(ms) : Manifold::BatchBoolean(ms, ot);
        v.how = d + (compose ? "])" : std::string("],") + on[(int)ot] + ")");
        v.tris = tot * 2 + 16;
        return {add(std::move(v))};
      }
      case 7: case 8: case 9: case 10: return {add(randomTransform(a, A))};
      case 11: {  // Split
        int ib = (int)r.below(pool.size());
        if (tooBig(a.tris + pool[ib].tris)) return {leaf()};
        Val b = place(pool[ib], "v" + std::to_string(ib), a);
        c.site("Split");
        auto pr = a.m.Split(b.m);
        std::vector<int> out;
        for (int k = 0; k < 2; k++) {
          Val v;
          v.m = k ? pr.second : pr.first;
          v.how = A + ".Split(" + b.how + ")." + (k ? "second" : "first");
          v.insts = a.insts;
          append(v.insts, b.insts);
          v.slack = std::max(a.slack, b.slack);
          v.planeCut = a.planeCut || b.planeCut;
          v.regrouped = a.regrouped || b.regrouped;
        v.nearEps = a.nearEps || b.nearEps;
        v.phantom = a.phantom || b.phantom;
          v.tris = (a.tris + b.tris) * 2;
          out.push_back(add(std::move(v)));
        }
        return out;
      }
      case 12: case 13: {  // plane cuts
        vec3 n = r.chance(0.3) ? vec3(0, 0, 1) : rv(1.0);
        if (la::length(n) == 0) n = vec3(1, 0, 0);
        Box bb = a.m.BoundingBox();
        vec3 ctr = bb.Center();
        double off = std::isfinite(ctr.x) ? la::dot(ctr, la::normalize(n)) + r.uni(-0.3, 0.3) : 0.0;
        if (!std::isfinite(off)) off = 0;
        std::vector<int> out;
        std::string args = "(" + vd::fmt(n) + "," + vd::fmt(off) + ")";
        if (r.chance(0.5)) {
          c.site("SplitByPlane");
          auto pr = a.m.SplitByPlane(n, off);
          for (int k = 0; k < 2; k++) {
            Val v = a;
            v.m = k ? pr.second : pr.first;
            v.how = A + ".SplitByPlane" + args + (k ? ".second" : ".first");
            v.planeCut = true;
            v.tris = a.tris * 2;
            out.push_back(add(std::move(v)));
          }
        } else {
          c.site("TrimByPlane");
          Val v = a;
          v.m = a.m.TrimByPlane(n, off);
          v.how = A + ".TrimByPlane" + args;
          v.planeCut = true;
          v.tris = a.tris * 2;
          out.push_back(add(std::move(v)));
        }
        return out;
      }
      case 14: case 15: {  // refinements (no tangents anywhere in this workload)
        Val v = a;
        if (a.m.Status() == Manifold::Error::NoError && !a.m.GetMeshGL64().halfedgeTangent.empty()) {
          v.phantom = true;
          c.count("refine_operands_with_phantom_tangents");
        }
        if (r.chance(0.6)) {
          int n = r.range(2, 3);
          if (tooBig(a.tris * n * n)) return {leaf()};
          c.site("Refine");
          v.m = a.m.Refine(n);
          v.how = A + ".Refine(" + std::to_string(n) + ")";
          v.tris = a.tris * n * n;
        } else {
          if (tooBig(a.tris * 8)) return {leaf()};
          Box bb = a.m.BoundingBox();
          double s = la::length(bb.Size());
          if (!std::isfinite(s) || s <= 0) s = 1;
          double len = s / r.uni(2, 6);
          c.site("RefineToLength");
          v.m = a.m.RefineToLength(len);
          v.how = A + ".RefineToLength(" + vd::fmt(len) + ")";
          v.tris = a.tris * 8;
        }
        return {add(std::move(v))};
      }
      case 16: case 17: {  // Simplify / SetTolerance: widen the bound
        Box bb = a.m.BoundingBox();
        double s = la::length(bb.Size());
        if (!std::isfinite(s) || s <= 0) s = 1;
        double tol = r.chance(0.3) ? 0.0 : s * pow(10.0, r.uni(-6, -1.5));
        Val v = a;
        v.regrouped = true;  // any simplification: outside the statement's program class
        if (r.chance(0.6)) {
          c.site("Simplify");
          v.m = a.m.Simplify(tol);
          v.how = A + ".Simplify(" + vd::fmt(tol) + ")";
          v.slack = std::max({a.slack, tol, a.m.GetTolerance()});
        } else {
          c.site("SetTolerance");
          v.m = a.m.SetTolerance(tol);
          v.how = A + ".SetTolerance(" + vd::fmt(tol) + ")";
          v.slack = std::max({a.slack, tol, a.m.GetTolerance()});
        }
        return {add(std::move(v))};
      }
      case 18: {  // AsOriginal: a new original whose source is this value's own export
        if (a.m.Status() != Manifold::Error::NoError || a.m.IsEmpty()) return {leaf()};
        c.site("AsOriginal");
        Manifold o = a.m.AsOriginal();
        int id = o.OriginalID();
        if (id < 0) {
          c.violation("asoriginal:no-original-id", vh::J().raw("program", programJson()).str());
          return {leaf()};
        }
        registerOrig((uint32_t)id, o.GetMeshGL64(), A + ".AsOriginal()");
        Val v;
        v.m = o;
        v.how = A + ".AsOriginal()";
        v.insts = {{(uint32_t)id, Ident()}};
        v.tris = a.tris;
        v.nearEps = a.nearEps;  // slivers left by a nearly coincident Boolean stay in the new original
        v.phantom = false;      // the new original's source is its own (already refined) export
        c.count("orig_asoriginal");
        return {add(std::move(v))};
      }
      default: {  // the same original again under another transform, then united/intersected with itself
        Val b = randomTransform(a, A, true);
        OpType ot = (OpType)r.range(0, 2);
        if (tooBig(a.tris * 2)) return {leaf()};
        Val v;
        c.site(std::string("SelfBoolean:") + on[(int)ot]);
        v.m = a.m.Boolean(b.m, ot);
        v.how = A + ".Boolean(" + b.how + "," + on[(int)ot] + ")";
        v.insts = a.insts;
        append(v.insts, b.insts);
        v.slack = std::max(a.slack, b.slack);
        v.planeCut = a.planeCut;
        v.regrouped = a.regrouped;
        v.nearEps = a.nearEps || b.nearEps;
        v.phantom = a.phantom || b.phantom;
        v.tris = a.tris * 4 + 16;
        return {add(std::move(v))};
      }
    }
  }
};

std::string opKind(const std::string& how) {
  // "v3.Boolean(...,Add)" -> "Boolean:Add"
  size_t dot = how.find('.'), par = how.find('(');
  std::string name;
  if (how.size() > 1 && how[0] == 'v' && isdigit((unsigned char)how[1]) && dot != std::string::npos && dot < par)
    name = how.substr(dot + 1, how.find('(', dot) - dot - 1);
  else
    name = how.substr(0, par);
  size_t n = how.size();
  for (const char* t : {"Add", "Subtract", "Intersect"}) {
    std::string suf = std::string(",") + t + ")";
    if (n >= suf.size() && how.compare(n - suf.size(), suf.size(), suf) == 0) name += std::string(":") + t;
  }
  if (n > 6 && how.compare(n - 6, 6, ".first") == 0) name += ".first";
  if (n > 7 && how.compare(n - 7, 7, ".second") == 0) name += ".second";
  return name;
}

// ------------------------------------------------------------------ the monitor
struct RunFace {
  std::vector<std::array<V3, 3>> tri;  // transformed source triangles
  std::vector<V3> nrm;                 // outward unit normals of the transformed triangles (zero if degenerate)
  std::vector<LD> alt;                 // min altitude
  FaceInfo* info = nullptr;
};

bool observe(Prog& P, int vi) {
  vh::Ctx& c = P.c;
  Val& v = P.pool[vi];
  const std::string kind = opKind(v.how);
  c.site("observe:" + kind);
  c.count("values_observed");
  if (v.m.Status() != Manifold::Error::NoError) {
    c.count("values_error_status");
    return true;
  }
  MeshGL64 g = v.m.GetMeshGL64();
  auto fail = [&](const std::string& key, vh::J& j) {
    c.violation((v.phantom ? "phantom-tangents:" : "") + key, j.s("step", v.how).raw("mesh", vo::MeshBrief(g)).raw("program", P.programJson()).str());
    return false;
  };
  const size_t nt = g.triVerts.size() / 3, nr = g.runOriginalID.size();
  // ---- run table: contiguous, covering, sorted; empty runs only trail
  {
    if (g.runIndex.size() != nr + 1) { vh::J j; return fail("runtable:runIndex-length:" + kind, j); }
    size_t lastNonEmpty = 0;  // number of leading runs up to and including the last non-empty one
    for (size_t i = 0; i < nr; i++)
      if (g.runIndex[i + 1] > g.runIndex[i]) lastNonEmpty = i + 1;
    MeshGL64 t;
    t.numProp = g.numProp;
    t.triVerts = g.triVerts;
    t.faceID = g.faceID;
    t.runIndex.assign(g.runIndex.begin(), g.runIndex.begin() + lastNonEmpty + 1);
    t.runOriginalID.assign(g.runOriginalID.begin(), g.runOriginalID.begin() + lastNonEmpty);
    if (!g.runTransform.empty() && g.runTransform.size() != 12 * nr) { vh::J j; return fail("runtable:runTransform-length:" + kind, j); }
    if (!g.runFlags.empty() && g.runFlags.size() != nr) { vh::J j; return fail("runtable:runFlags-length:" + kind, j); }
    if (lastNonEmpty > 0) {
      std::string rt = vo::CheckRunTable(t);
      if (!rt.empty()) { vh::J j; j.raw("runIndex", vh::jarr(g.runIndex)).raw("runOriginalID", vh::jarr(g.runOriginalID)); return fail("runtable:" + rt + ":" + kind, j); }
      for (size_t i = 0; i < lastNonEmpty; i++)
        if (g.runIndex[i + 1] == g.runIndex[i]) {
          vh::J j;
          j.raw("runIndex", vh::jarr(g.runIndex)).raw("runOriginalID", vh::jarr(g.runOriginalID));
          return fail("runtable:empty-run-not-trailing:" + kind, j);
        }
    } else if (nt != 0 || (nr > 0 && g.runIndex.back() != 0)) {
      vh::J j;
      return fail("runtable:triangles-without-run:" + kind, j);
    }
    if (nr > 0 && g.runIndex.back() != g.triVerts.size()) { vh::J j; return fail("runtable:runIndex-does-not-cover-triVerts:" + kind, j); }
    c.count("runs_seen", (long long)nr);
    c.count("empty_trailing_runs", (long long)(nr - lastNonEmpty));
    if (!g.faceID.empty() && g.faceID.size() != nt) { vh::J j; return fail("runtable:faceID-length:" + kind, j); }
  }
  if (nt == 0) {
    c.count("values_empty");
    return true;
  }
  if (g.faceID.size() != nt) { vh::J j; return fail("face:no-faceID-exported:" + kind, j); }
  const size_t nv = g.vertProperties.size() / g.numProp;
  for (auto i : g.triVerts)
    if (i >= nv) { vh::J j; return fail("runtable:triVert-out-of-range:" + kind, j); }
  const int neOut = (int)g.numProp - 3;
  LD outMax = 0;
  for (size_t i = 0; i < nv; i++)
    for (int k = 0; k < 3; k++) outMax = std::max(outMax, fabsl((LD)g.vertProperties[i * g.numProp + k]));
  const LD tolStated = std::max((LD)g.tolerance, (LD)v.slack);
  std::vector<char> instUsed(v.insts.size(), 0);
  size_t nonEmptyRuns = 0;
  bool sawBack = false, sawMirror = false, sawMulti = false;
  std::map<uint32_t, int> runsPerID;
  LD worstGeo = 0, worstProp = 0;
  bool marginalGeoReported = false, marginalPropReported = false, clean = true;
  for (size_t run = 0; run < nr; run++) {
    const size_t t0 = g.runIndex[run] / 3, t1 = g.runIndex[run + 1] / 3;
    if (t0 == t1) continue;
    nonEmptyRuns++;
    const uint32_t id = g.runOriginalID[run];
    if (++runsPerID[id] > 1) sawMulti = true;
    Orig* o = nullptr;
    auto it = P.reg.find(id);
    bool anonymous = false;
    if (it != P.reg.end()) o = &it->second;
    else if (v.planeCut) { o = &P.cutter; anonymous = true; c.count("runs_plane_cutter"); }
    else {
      vh::J j;
      j.u("originalID", id);
      return fail("run:unknown-original:" + kind, j);
    }
    A34 T = g.runTransform.empty() ? Ident() : FromMat(g.GetRunTransform(run));
    A34 Ti;
    if (!Inverse(T, Ti)) { c.count("runs_singular_transform"); continue; }
    const LD det = Det(T);
    const bool back = g.Backside(run), hasN = g.HasNormals(run);
    if (back) sawBack = true;
    if (det < 0) sawMirror = true;
    const LD frobT = Frob(T), frobTi = Frob(Ti);
    LD scale = std::max(outMax, frobT * o->maxAbs + std::max({fabsl(T.t[0]), fabsl(T.t[1]), fabsl(T.t[2])}));
    const LD B = tolStated + 64 * (LD)DBL_EPSILON * scale;
    // ---- the instance this run claims to be
    if (!anonymous) {
      // compare the images of the source bounding box corners
      V3 lo{1e300L, 1e300L, 1e300L}, hi{-1e300L, -1e300L, -1e300L};
      const MeshGL64& s = o->src;
      for (size_t i = 0; i < s.vertProperties.size() / s.numProp; i++) {
        V3 p = Pos(s, i);
        lo = {std::min(lo.x, p.x), std::min(lo.y, p.y), std::min(lo.z, p.z)};
        hi = {std::max(hi.x, p.x), std::max(hi.y, p.y), std::max(hi.z, p.z)};
      }
      int match = -1;
      LD bestDev = 1e300L;
      for (size_t k = 0; k < v.insts.size(); k++) {
        if (instUsed[k] || v.insts[k].id != id) continue;
        LD dev = 0, mag = 0;
        for (int cc = 0; cc < 8; cc++) {
          V3 p{cc & 1 ? hi.x : lo.x, cc & 2 ? hi.y : lo.y, cc & 4 ? hi.z : lo.z};
          V3 q1 = Apply(T, p), q2 = Apply(v.insts[k].T, p);
          dev = std::max(dev, vo::norm(q1 - q2));
          mag = std::max(mag, vo::norm(q2));
        }
        if (dev <= 1e-9L * (1 + mag) + B && dev < bestDev) { bestDev = dev; match = (int)k; }
      }
      if (match < 0) {
        vh::J j;
        std::string exp = "[";
        bool first = true;
        for (auto& in : v.insts)
          if (in.id == id) { exp += std::string(first ? "\"" : ",\"") + MatStr(in.T) + "\""; first = false; }
        exp += "]";
        j.u("originalID", id).u("run", run).s("runTransform_rows", MatStr(T)).raw("expected_instances_of_that_original", exp).s("original", o->desc);
        return fail("instance:run-transform-matches-no-expected-instance:" + kind, j);
      }
      instUsed[match] = 1;
      c.count("instances_matched");
    }
    // Library face IDs of a value that went through a tolerance-raising
    // Simplify/SetTolerance were relabelled by the library; the statement's
    // program class excludes simplification, so for such runs only 'lies on
    // the transformed source surface' is checked (whole mesh as one face).
    const bool wholeMode = v.regrouped;
    if (wholeMode && v.nearEps) { c.count("runs_simplified_after_few_epsilon_skipped"); continue; }
    if (wholeMode) {
      if ((t1 - t0) * o->whole.tris.size() > 3000000) { c.count("runs_regrouped_skipped_too_large"); continue; }
      c.count("runs_regrouped_whole_surface_only");
    }
    std::unordered_map<uint64_t, RunFace> cache;
    for (size_t t = t0; t < t1; t++) {
      const uint64_t fid = wholeMode ? ~0ull : (uint64_t)g.faceID[t];
      auto cf = cache.find(fid);
      if (cf == cache.end()) {
        RunFace rf;
        auto fi = o->faces.find(fid);
        FaceInfo* info = wholeMode ? &o->whole : (fi != o->faces.end() ? &fi->second : nullptr);
        if (info) {
          rf.info = info;
          for (uint32_t st : info->tris) {
            std::array<V3, 3> q;
            for (int k = 0; k < 3; k++) q[k] = Apply(T, Pos(o->src, o->src.triVerts[3 * st + k]));
            V3 n = vo::cross(q[1] - q[0], q[2] - q[0]);
            LD a2 = vo::norm(n);
            LD lmax = std::max({vo::norm(q[1] - q[0]), vo::norm(q[2] - q[1]), vo::norm(q[0] - q[2])});
            rf.alt.push_back(lmax > 0 ? a2 / lmax : 0);
            // outward normal of the transformed solid: a mirroring transform reverses the vertex order's sense
            rf.nrm.push_back(a2 > 0 ? n * ((det < 0 ? -1 : 1) / a2) : V3{0, 0, 0});
            rf.tri.push_back(q);
          }
        }
        cf = cache.emplace(fid, std::move(rf)).first;
      }
      RunFace& F = cf->second;
      if (!F.info) {
        vh::J j;
        j.u("originalID", id).u("faceID", fid).u("tri", t).s("original", o->desc);
        return fail("face:faceID-names-no-source-triangle:" + kind, j);
      }
      V3 q[3];
      size_t vidx[3];
      for (int k = 0; k < 3; k++) {
        vidx[k] = g.triVerts[3 * t + k];
        q[k] = Pos(g, vidx[k]);
      }
      // ---- geometry: each vertex within B of the union of the transformed face
      const size_t nf = F.tri.size();
      std::vector<LD> dmaxPerSrc(nf, 0);
      LD dUnion = 0;
      for (int k = 0; k < 3; k++) {
        LD best = 1e300L;
        for (size_t s = 0; s < nf; s++) {
          LD d = sqrtl(vo::PointTriDist2(q[k], F.tri[s][0], F.tri[s][1], F.tri[s][2]));
          best = std::min(best, d);
          dmaxPerSrc[s] = std::max(dmaxPerSrc[s], d);
        }
        dUnion = std::max(dUnion, best);
      }
      c.count("tris_checked");
      worstGeo = std::max(worstGeo, dUnion / B);
      if (!(dUnion <= B) && dUnion <= 4 * B) {
        // marginal: beyond the tolerance the statement grants, within 4x of it
        c.count("tris_marginal_1to4_tolerance");
        if (!marginalGeoReported) {
          marginalGeoReported = true;
          vh::J j;
          j.u("originalID", id).u("run", run).u("faceID", fid).u("tri", t).d("distance", (double)dUnion).d("bound", (double)B).d("ratio", (double)(dUnion / B))
              .d("export_tolerance", g.tolerance).d("slack", v.slack).s("out_tri", P3(q[0]) + P3(q[1]) + P3(q[2])).s("runTransform_rows", MatStr(T))
              .u("face_source_tris", nf).s("original", o->desc).bo("backside", back);
          fail("geom:triangle-off-its-source-face:marginal(1-4x-tolerance):" + kind, j);
          clean = false;
        }
      } else if (!(dUnion <= B)) {
        vh::J j;
        j.u("originalID", id).u("run", run).u("faceID", fid).u("tri", t).d("distance", (double)dUnion).d("bound", (double)B).d("export_tolerance", g.tolerance)
            .d("slack", v.slack).s("out_tri", P3(q[0]) + P3(q[1]) + P3(q[2])).s("runTransform_rows", MatStr(T)).u("face_source_tris", nf).s("original", o->desc)
            .bo("backside", back);
        return fail(std::string(wholeMode ? "geom:off-source-surface-after-simplification:" : "geom:triangle-off-its-source-face:") + (v.nearEps ? "few-epsilon-ancestry:" : "") + kind, j);
      }
      if (wholeMode) { c.count("tris_regrouped_geometry_only"); continue; }
      // ---- orientation
      {
        V3 n = vo::cross(q[1] - q[0], q[2] - q[0]);
        LD a2 = vo::norm(n);
        LD lmax = std::max({vo::norm(q[1] - q[0]), vo::norm(q[2] - q[1]), vo::norm(q[0] - q[2])});
        LD alt = lmax > 0 ? a2 / lmax : 0;
        int src = -1;
        bool decidable = alt > 8 * B;
        // candidates: source triangles the whole output triangle lies on; one with the right orientation suffices
        // (a coplanar face may hold coincident triangles of both orientations)
        for (size_t s = 0; s < nf && decidable; s++)
          if (dmaxPerSrc[s] <= B && F.alt[s] > 8 * B) {
            LD dps = vo::dot(n, F.nrm[s]);
            if (src < 0 || (back ? dps < 0 : dps > 0)) src = (int)s;
            if (back ? dps < 0 : dps > 0) break;
          }
        V3 ns{0, 0, 0};
        if (decidable && src >= 0) ns = F.nrm[src];
        else if (decidable) {
          // spans several source triangles: usable only if they all share one normal
          FitFace(*o, *F.info);
          bool ok = F.info->planar;
          size_t big = 0;
          for (size_t s = 1; s < nf; s++)
            if (F.alt[s] > F.alt[big]) big = s;
          if (ok && F.alt[big] > 8 * B) {
            for (size_t s = 0; s < nf; s++)
              if (F.alt[s] > 8 * B && vo::dot(F.nrm[s], F.nrm[big]) < 0.999L) ok = false;
            ns = F.nrm[big];
          } else
            ok = false;
          decidable = ok;
        }
        if (!decidable) c.count("orientation_skipped_in_band");
        else {
          LD dp = vo::dot(n, ns) / a2;
          c.count("orientations_decided");
          if (back ? !(dp < 0) : !(dp > 0)) {
            vh::J j;
            j.u("originalID", id).u("run", run).u("faceID", fid).u("tri", t).d("cos", (double)dp).bo("backside_flag", back).d("det_runTransform", (double)det)
                .s("out_tri", P3(q[0]) + P3(q[1]) + P3(q[2])).s("src_normal_world", P3(ns)).s("original", o->desc);
            return fail(std::string("orient:") + (back ? "backside-run-not-opposite:" : "same-orientation-violated:") + kind, j);
          }
        }
      }
      // ---- properties
      if (neOut > 0) {
        const int neSrc = anonymous ? 0 : o->nExtra;
        if (neSrc > 0) FitFace(*o, *F.info);
        for (int k = 0; k < 3; k++) {
          const double* row = &g.vertProperties[vidx[k] * g.numProp + 3];
          V3 p = Apply(Ti, q[k]);
          for (int ch = 0; ch < neOut; ch++) {
            if (hasN && ch < 3) { c.count("prop_samples_normals_excluded"); continue; }
            if (ch >= neSrc) {
              c.count("prop_samples_missing_channel");
              if (row[ch] != 0) {
                vh::J j;
                j.u("originalID", id).u("run", run).u("tri", t).i("channel", ch).d("got", row[ch]).i("source_channels", neSrc).s("original", o->desc);
                return fail("prop:missing-channel-not-zero:" + kind, j);
              }
              continue;
            }
            FaceInfo& I = *F.info;
            if (!I.affine[ch]) { c.count("prop_samples_skipped_nonaffine_face"); continue; }
            LD expv = I.fit[ch][0] + I.fit[ch][1] * (p.x - I.p0.x) + I.fit[ch][2] * (p.y - I.p0.y) + I.fit[ch][3] * (p.z - I.p0.z);
            LD bound = I.grad[ch] * frobTi * B + 2 * I.resid[ch] + 1e-12L * I.vscale[ch] + 16 * (LD)DBL_EPSILON * fabsl(expv);
            LD err = fabsl((LD)row[ch] - expv);
            c.count("prop_samples_checked");
            if (nf == 1) c.count("prop_samples_checked_single_triangle_face");
            if (bound > 0) worstProp = std::max(worstProp, err / bound);
            if (!(err <= bound) && err <= 4 * bound) {
              c.count("prop_samples_marginal_1to4_bound");
              if (!marginalPropReported) {
                marginalPropReported = true;
                vh::J j;
                j.u("originalID", id).u("run", run).u("faceID", fid).u("tri", t).i("corner", k).i("channel", ch).d("got", row[ch]).d("expected", (double)expv)
                    .d("error", (double)err).d("bound", (double)bound).d("ratio", (double)(err / bound)).d("gradient", (double)I.grad[ch]).d("B", (double)B)
                    .s("vertex", P3(q[k])).u("face_source_tris", nf).s("original", o->desc).bo("backside", back);
                fail("prop:value-differs-from-source-field:marginal(1-4x-bound):" + kind, j);
                clean = false;
              }
            } else if (!(err <= bound)) {
              vh::J j;
              j.u("originalID", id).u("run", run).u("faceID", fid).u("tri", t).i("corner", k).i("channel", ch).d("got", row[ch]).d("expected", (double)expv)
                  .d("error", (double)err).d("bound", (double)bound).d("gradient", (double)I.grad[ch]).d("fit_residual", (double)I.resid[ch]).d("B", (double)B)
                  .s("vertex", P3(q[k])).s("vertex_in_source_frame", P3(p)).u("face_source_tris", nf).s("original", o->desc).bo("backside", back);
              return fail(std::string("prop:value-differs-from-source-field:") + (v.nearEps ? "few-epsilon-ancestry:" : "") + kind, j);
            }
          }
        }
      }
    }
  }
  c.maxi("worst_geo_ratio_permille", (long long)(worstGeo * 1000));
  c.maxi("worst_prop_ratio_permille", (long long)(worstProp * 1000));
  c.maxi("max_tris", (long long)nt);
  c.count("values_nonempty_checked");
  if (sawBack) c.count("values_with_backside_run");
  if (sawMirror) c.count("values_with_mirrored_run");
  if (sawMulti) c.count("values_with_repeated_instances");
  int b = 0;
  for (size_t x = nt; x > 1; x >>= 1) b++;
  c.sig(kind + "#r" + std::to_string(std::min<size_t>(nonEmptyRuns, 6)) + (sawBack ? "b" : "") + (sawMirror ? "m" : "") + (sawMulti ? "i" : "") + (neOut ? "p" : "") + "#" + std::to_string(b / 2));
  v.checkedOK = clean;
  return true;
}

// Self-test of the harness's own transform bookkeeping (Rotate / Mirror
// conventions); a mismatch is a harness fault, not a finding.
bool selfTest(vh::Ctx& c) {
  vh::Rng r(12345);
  Manifold cube = Manifold::Cube(vec3(1, 2, 3));
  vec3 e(33, -71, 128), n(0.3, -0.5, 0.8), t(0.1, 0.2, -0.3);
  MeshGL64 g = cube.Rotate(e.x, e.y, e.z).Mirror(n).Translate(t).GetMeshGL64();
  if (g.runTransform.size() != 12) return false;
  const LD d2r = 3.14159265358979323846264338327950288L / 180;
  LD ax = e.x * d2r, ay = e.y * d2r, az = e.z * d2r;
  A34 rx = Ident(), ry = Ident(), rz = Ident(), M = Ident(), Tt = Ident();
  rx.L[1][1] = cosl(ax); rx.L[1][2] = -sinl(ax); rx.L[2][1] = sinl(ax); rx.L[2][2] = cosl(ax);
  ry.L[0][0] = cosl(ay); ry.L[0][2] = sinl(ay); ry.L[2][0] = -sinl(ay); ry.L[2][2] = cosl(ay);
  rz.L[0][0] = cosl(az); rz.L[0][1] = -sinl(az); rz.L[1][0] = sinl(az); rz.L[1][1] = cosl(az);
  LD len = sqrtl((LD)n.x * n.x + (LD)n.y * n.y + (LD)n.z * n.z);
  LD u[3] = {n.x / len, n.y / len, n.z / len};
  for (int i = 0; i < 3; i++)
    for (int j = 0; j < 3; j++) M.L[i][j] -= 2 * u[i] * u[j];
  for (int i = 0; i < 3; i++) Tt.t[i] = t[i];
  A34 exp = Mul(Tt, Mul(M, Mul(rz, Mul(ry, rx))));
  A34 got = FromMat(g.GetRunTransform(0));
  for (int i = 0; i < 3; i++) {
    for (int j = 0; j < 3; j++)
      if (fabsl(exp.L[i][j] - got.L[i][j]) > 1e-12L) return false;
    if (fabsl(exp.t[i] - got.t[i]) > 1e-12L) return false;
  }
  return true;
}

}  // namespace

void vh_init(vh::Ctx& c) {
  if (!selfTest(c)) c.inconclusive("harness self-test failed: the harness's model of Rotate/Mirror/Translate composition disagrees with the exported runTransform of a plain cube");
}

void vh_case(vh::Ctx& c) {
  Prog P(c);
  const int steps = (int)c.iparam("steps", 10);
  const bool lazy = c.rng.chance(0.3);
  const int n = c.rng.range(std::max(3, steps / 2), steps);
  std::vector<int> pending;
  try {
    for (int s = 0; s < n; s++) {
      std::vector<int> nu = P.step();
      c.count("steps");
      for (int i : nu) pending.push_back(i);
      if (!lazy) {
        for (int i : pending)
          if (!observe(P, i)) return;
        pending.clear();
      }
      c.heartbeat();
    }
    for (int i : pending)
      if (!observe(P, i)) return;
  } catch (const std::exception& e) {
    c.violation(std::string("throw:") + e.what(), vh::J().s("what", e.what()).raw("program", P.programJson()).str());
    return;
  }
  if (c.idx % 53 == 0) c.sample(vh::J().i("idx", c.idx).raw("program", P.programJson(12)).str());
}
