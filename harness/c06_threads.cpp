// C06 — shared Manifolds / CrossSections / ExecutionContexts may be used from
// several threads: no data race (ThreadSanitizer, variant `tsan`; every
// synchronisation of the serial-backend library is visible to it), no
// deadlock (driver watchdog), same answers as seen by every other thread.
//
// One case = one ROUND: a fresh pool of shared lazy objects (first-evaluation
// races happen once per object), T threads released by a barrier, each running
// a seeded program of exactly the operations the statement allows.
#include <atomic>
#include <thread>

#include "common/dsl.h"
#include "common/oracles.h"
#include "common/vh.h"
#include "manifold/cross_section.h"

using namespace manifold;

namespace {

struct Shared {
  std::vector<Manifold> m;       // lazy expressions, some sharing sub-expressions
  std::vector<CrossSection> x;   // some with pending lazy transforms
  ExecutionContext ctx;          // polled / cancelled from other threads
  Manifold observed;             // m-expression with ctx attached
  std::vector<Manifold> observedMore;  // further lazy expressions observed through the same ctx
};

struct ThreadLog {
  // (object index, field) -> hash, for cross-thread agreement
  std::vector<std::pair<int, std::string>> obsM, obsX;
  std::vector<int> ctxStatus;
  long ops = 0;
  std::string error;
};

Manifold leaf(vh::Rng& r) {
  switch (r.below(5)) {
    case 0: return Manifold::Cube(vec3(r.uni(0.5, 2), r.uni(0.5, 2), r.uni(0.5, 2)), r.chance(0.5));
    case 1: return Manifold::Sphere(r.uni(0.5, 1.2), 4 * (int)r.range(1, 3));
    case 2: return Manifold::Cylinder(r.uni(0.5, 2), r.uni(0.3, 1), r.uni(0.3, 1), (int)r.range(3, 10));
    case 3: return Manifold::Tetrahedron();
    default: {
      std::vector<vec3> pts(r.range(5, 12));
      for (auto& p : pts) p = vec3(r.uni(-1, 1), r.uni(-1, 1), r.uni(-1, 1));
      return Manifold::Hull(pts);
    }
  }
}

void buildPool(vh::Rng& r, Shared& s) {
  int nl = (int)r.range(3, 5);
  std::vector<Manifold> leaves;
  for (int i = 0; i < nl; i++) leaves.push_back(leaf(r).Rotate(r.uni(0, 90), r.uni(0, 90), r.uni(0, 90)).Translate(vec3(r.uni(-0.5, 0.5), r.uni(-0.5, 0.5), r.uni(-0.5, 0.5))));
  // lazy expressions; later ones reuse earlier ones as sub-expressions
  int ne = (int)r.range(3, 6);
  for (int i = 0; i < ne; i++) {
    const Manifold& a = (i > 0 && r.chance(0.6)) ? s.m[r.below(s.m.size())] : leaves[r.below(leaves.size())];
    const Manifold& b = (i > 1 && r.chance(0.4)) ? s.m[r.below(s.m.size())] : leaves[r.below(leaves.size())];
    OpType op = (OpType)r.below(3);
    Manifold e = a.Boolean(b.Translate(vec3(r.uni(-0.3, 0.3), r.uni(-0.3, 0.3), r.uni(-0.3, 0.3))), op);
    if (r.chance(0.4)) e = e.Rotate(r.uni(0, 90), 0, r.uni(0, 90));  // pending lazy transform on an op node
    if (r.chance(0.2)) e = e.Scale(vec3(r.uni(0.5, 1.5)));
    s.m.push_back(e);
  }
  if (r.chance(0.5)) s.m.push_back(Manifold::BatchBoolean({s.m[0], s.m.back(), leaves[0]}, OpType::Add));
  // a leaf with a pending lazy transform (CsgLeafNode::GetImpl realises it)
  s.m.push_back(leaves[0].Translate(vec3(1, 2, 3)).Rotate(10, 20, 30));
  int nx = (int)r.range(2, 4);
  for (int i = 0; i < nx; i++) {
    CrossSection c = r.chance(0.5) ? CrossSection::Square({r.uni(0.5, 2), r.uni(0.5, 2)}, r.chance(0.5)) : CrossSection::Circle(r.uni(0.5, 1.5), (int)r.range(3, 16));
    if (r.chance(0.8)) c = c.Scale({r.uni(0.5, 5), r.uni(0.5, 5)}).Rotate(r.uni(0, 360));  // lazy transform pending
    if (i > 0 && r.chance(0.5)) c = c.Boolean(s.x[r.below(s.x.size())].Translate({r.uni(-0.5, 0.5), r.uni(-0.5, 0.5)}), (OpType)r.below(3));
    s.x.push_back(c);
  }
  // The context-observed expression has its own lazy sub-tree (not shared with
  // s.m): a cancelled evaluation poisons the op nodes it was working on by
  // design, which must not leak into objects that are observed without the
  // context (the statement only promises that cancelling/polling is race-free).
  Manifold inner = leaf(r).Translate(vec3(0.1, 0.2, 0.3)) + leaf(r).Rotate(r.uni(0, 90), 0, 0);
  s.observed = ((inner - leaf(r).Translate(vec3(0.2))) + inner.Translate(vec3(0.4, 0, 0))).WithContext(s.ctx);
  // several more first evaluations per round through the (possibly cancelled) context
  int more = (int)r.range(1, 4);
  for (int i = 0; i < more; i++) {
    Manifold in2 = leaf(r).Translate(vec3(0.05 * i, 0.1, 0.2)) - leaf(r).Rotate(0, r.uni(0, 90), 0);
    s.observedMore.push_back(((in2 + leaf(r).Translate(vec3(0.3))) ^ in2.Translate(vec3(0.2, 0.1, 0))).WithContext(s.ctx));
  }
}

std::string hashM(const Manifold& m, int field) {
  vo::Hash128 h;
  switch (field) {
    case 0: h = vo::HashMesh(m.GetMeshGL64(), true); break;
    case 1: h.pod((uint64_t)m.NumTri()); break;
    case 2: h.pod((uint64_t)m.NumVert()); break;
    case 3: h.pod(m.Volume()); break;
    case 4: { Box b = m.BoundingBox(); h.pod(b.min.x); h.pod(b.max.z); break; }
    case 5: h.pod((int)m.Status()); break;
    case 6: h.pod(m.GetTolerance()); break;
    case 7: h.pod(m.OriginalID()); break;
    case 8: h.pod((int)m.Genus()); break;
    default: h.pod((int)m.IsEmpty()); break;
  }
  return h.hex();
}
std::string hashX(const CrossSection& x, int field) {
  vo::Hash128 h;
  switch (field) {
    case 0: h = vo::HashPolygons(x.ToPolygons()); break;
    case 1: h.pod(x.Area()); break;
    case 2: h.pod(x.GetTolerance()); break;
    case 3: { Rect b = x.Bounds(); h.pod(b.min.x); h.pod(b.max.y); break; }
    case 4: h.pod((uint64_t)x.NumVert()); break;
    default: h.pod((int)x.IsEmpty()); break;
  }
  return h.hex();
}

size_t gStormCancelAt = 0;
int gStormDelay = 0;
bool gStorm = false;  // round type: threads mostly evaluate through the shared context while one cancels

void threadProgram(const Shared& s, uint64_t seed, int steps, int role, ThreadLog& log) {
  vh::Rng r(seed);
  try {
    std::vector<Manifold> mine;  // thread-private
    std::vector<CrossSection> mineX;
    if (gStorm) {
      // every thread evaluates ITS OWN COPY of the same lazy expressions right
      // after the barrier (distinct handles => truly concurrent evaluation of
      // the shared op nodes); the canceller cancels after a short seeded delay
      for (size_t e = 0; e < s.observedMore.size(); e++) {
        Manifold c(s.observedMore[e]);
        if (role == 2 && e == gStormCancelAt) {
          for (int y = 0; y < gStormDelay; y++) std::this_thread::yield();
          const_cast<ExecutionContext&>(s.ctx).Cancel();
        }
        log.ctxStatus.push_back((int)c.Status());
        log.ops++;
      }
    }
    for (int i = 0; i < steps; i++) {
      log.ops++;
      int op = (int)r.below(role == 2 ? 14 : 12);
      if (r.chance(0.15)) op = 10;  // more evaluations through the shared context
      if (gStorm) op = (role == 2 && i >= 1 && r.chance(0.35)) ? 12 : (r.chance(0.8) ? 10 : 11);
      switch (op) {
        case 0: case 1: case 2: {  // const query on a shared Manifold (possibly the first, forcing, call)
          int k = (int)r.below(s.m.size()), f = (int)r.below(10);
          log.obsM.push_back({k * 16 + f, hashM(s.m[k], f)});
          break;
        }
        case 3: {  // copy-construct / assign FROM a shared object
          int k = (int)r.below(s.m.size());
          if (r.chance(0.5)) { Manifold c(s.m[k]); mine.push_back(c); }
          else { Manifold c; c = s.m[k]; mine.push_back(c); }
          int f = (int)r.below(10);
          log.obsM.push_back({k * 16 + f, hashM(mine.back(), f)});  // a copy must look like the original
          break;
        }
        case 4: case 5: {  // new expression sharing sub-expressions, evaluated here
          int a = (int)r.below(s.m.size()), b = (int)r.below(s.m.size());
          Manifold e = s.m[a].Boolean(s.m[b].Translate(vec3(r.uni(-0.2, 0.2), 0.1, 0)), (OpType)r.below(3));
          if (r.chance(0.5)) e = Manifold::BatchBoolean({e, s.m[(a + 1) % s.m.size()]}, OpType::Add);
          (void)e.NumTri();
          mine.push_back(e);
          break;
        }
        case 6: (void)Manifold::ReserveIDs((uint32_t)r.range(1, 5)); break;
        case 7: case 8: {  // CrossSection const queries
          int k = (int)r.below(s.x.size()), f = (int)r.below(6);
          log.obsX.push_back({k * 16 + f, hashX(s.x[k], f)});
          break;
        }
        case 9: {  // derive from shared CrossSection
          int k = (int)r.below(s.x.size());
          CrossSection c = r.chance(0.5) ? s.x[k].Translate({0.1, 0.2}) : s.x[k].Boolean(s.x[(k + 1) % s.x.size()], (OpType)r.below(3));
          if (r.chance(0.5)) { CrossSection d(s.x[k]); mineX.push_back(d); int f = (int)r.below(6); log.obsX.push_back({k * 16 + f, hashX(d, f)}); }
          (void)c.Area();
          mineX.push_back(c);
          break;
        }
        case 10: {  // evaluation through the shared, possibly cancelled, context
          Manifold::Error st;
          const Manifold& ob = r.chance(0.4) ? s.observed : s.observedMore[r.below(s.observedMore.size())];
          if (r.chance(0.5)) st = ob.Status();
          else { Manifold c(ob); st = c.Status(); }  // copies keep the attachment
          log.ctxStatus.push_back((int)st);
          break;
        }
        case 11: {  // poll
          // Race-freedom of polling is what C06 promises. The VALUE is not
          // checked here: several evaluations run through this one context
          // concurrently, for which the library documents undefined progress
          // values (common.h); the single-evaluation progress contract is C15's.
          double p = s.ctx.Progress();
          (void)p;
          (void)s.ctx.Cancelled();
          break;
        }
        default: {  // role 2 only: cancel from another thread at a random moment
          const_cast<ExecutionContext&>(s.ctx).Cancel();
          break;
        }
      }
      if (r.chance(0.15)) std::this_thread::yield();
    }
  } catch (const std::exception& e) {
    log.error = std::string("exception: ") + e.what();
  }
}

}  // namespace

void vh_case(vh::Ctx& c) {
  vh::Rng& r = c.rng;
  static const int Ts[] = {2, 2, 3, 4, 8};
  int T = Ts[r.below(5)];
  int steps = (int)c.iparam("steps", 14);
  Shared s;
  c.site("build-pool");
  buildPool(r, s);
  std::vector<ThreadLog> logs(T);
  std::vector<uint64_t> seeds(T);
  for (auto& x : seeds) x = r.next();
  gStorm = r.chance(0.3);
  gStormCancelAt = r.below(4);
  gStormDelay = (int)r.below(40);
  bool canceller = gStorm || r.chance(0.6);
  std::atomic<int> ready{0};
  std::vector<std::thread> th;
  c.site("threads");
  for (int t = 0; t < T; t++)
    th.emplace_back([&, t] {
      ready.fetch_add(1);
      while (ready.load() < T) {}
      threadProgram(s, seeds[t], steps, (canceller && t == T - 1) ? 2 : 1, logs[t]);
    });
  for (auto& t : th) t.join();
  c.count("rounds");
  c.count("threads_run", T);
  // cross-thread agreement: every observation of the same (shared object, field)
  // must be identical in all threads and equal to a post-join observation
  std::map<int, std::string> seenM, seenX;
  long agree = 0;
  for (int t = 0; t < T; t++) {
    c.count("thread_ops", logs[t].ops);
    if (!logs[t].error.empty()) {
      c.violation("thread-error", vh::J().s("error", logs[t].error).i("threads", T).str());
      return;
    }
    for (auto& o : logs[t].obsM) {
      auto it = seenM.emplace(o.first, o.second).first;
      agree++;
      if (it->second != o.second) {
        c.violation("threads-disagree:manifold-field" + std::to_string(o.first % 16), vh::J().i("object", o.first / 16).i("field", o.first % 16).i("threads", T).str());
        return;
      }
    }
    for (auto& o : logs[t].obsX) {
      auto it = seenX.emplace(o.first, o.second).first;
      agree++;
      if (it->second != o.second) {
        c.violation("threads-disagree:crosssection-field" + std::to_string(o.first % 16), vh::J().i("object", o.first / 16).i("field", o.first % 16).i("threads", T).str());
        return;
      }
    }
    for (int st : logs[t].ctxStatus)
      if (st != (int)Manifold::Error::NoError && st != (int)Manifold::Error::Cancelled) {
        c.violation("ctx-status-unexpected", vh::J().i("status", st).str());
        return;
      }
  }
  for (auto& kv : seenM)
    if (hashM(s.m[kv.first / 16], kv.first % 16) != kv.second) {
      c.violation("post-join-differs:manifold-field" + std::to_string(kv.first % 16), vh::J().i("object", kv.first / 16).str());
      return;
    }
  for (auto& kv : seenX)
    if (hashX(s.x[kv.first / 16], kv.first % 16) != kv.second) {
      c.violation("post-join-differs:crosssection-field" + std::to_string(kv.first % 16), vh::J().i("object", kv.first / 16).str());
      return;
    }
  c.count("agreement_comparisons", agree);
  c.sig("T" + std::to_string(T) + "#m" + std::to_string(s.m.size()) + "#x" + std::to_string(s.x.size()) + "#" + std::to_string(canceller) + "#" + std::to_string(seenM.size() % 16) + "#" + std::to_string(seenX.size() % 8));
  if (c.idx % 101 == 0) c.sample(vh::J().i("idx", c.idx).i("threads", T).u("shared_manifolds", s.m.size()).u("shared_cross_sections", s.x.size()).i("canceller", canceller).i("agreements", agree).str());
}
