// C02 — Booleans compute the regularised set operation on the operand solids
// (DESIGN.md §4 C02). Stages (selected by --stage):
//
//   lattice-pairs  ordered pairs of integer boxes on [0,3]^3 x 3 ops; model =
//                  voxel array. quick: seeded sample; thorough: the case index
//                  is decoded into a block of consecutive ordered pairs, all
//                  46 656 pairs are covered (exhaustive for that sub-space).
//   lattice-progs  random eager CSG programs (Boolean / BatchBoolean, depth<=6)
//                  over boxes on [0,N]^3, N<=6; a result is reused as an
//                  operand only if it passed the oracle itself.
//   lattice-touch  directed family: X op (P+Q) / (P+Q) op X with P,Q lattice
//                  boxes that touch along an edge or at a vertex (found to be
//                  the regime where the pinned tree goes wrong).
//   general        eps-valid-by-construction operands in general position;
//                  oracle = solid-angle winding number on the exported meshes,
//                  guard band tau around BOTH input surfaces.
//
// The lattice oracle decides "result == voxel set" EXACTLY: every triangle of
// the export must lie in an integer axis-aligned plane (so the winding number
// is constant inside every open unit voxel), the winding number at every voxel
// centre (and at one quarter-offset point per voxel, incl. a one-voxel shell
// around the grid) must equal the model, and Volume() must equal the voxel
// count within 1e-9. Vertices at non-integer positions INSIDE a lattice plane
// do not change the solid and are only counted.
#include <algorithm>
#include <functional>
#include <memory>

#include "common/oracles.h"
#include "common/vh.h"

using namespace manifold;
using vo::V3;

static const char* kOpName[3] = {"Add", "Subtract", "Intersect"};
static const char kOpChar[3] = {'+', '-', '^'};

static std::string f17(double x) {
  char b[40];
  snprintf(b, sizeof b, "%.17g", x);
  return b;
}

// ===========================================================================
// lattice regime
// ===========================================================================
namespace lat {

struct LBox {
  int lo[3], hi[3];
  bool operator==(const LBox& o) const {
    for (int k = 0; k < 3; k++)
      if (lo[k] != o.lo[k] || hi[k] != o.hi[k]) return false;
    return true;
  }
  std::string str() const {
    char s[96];
    snprintf(s, sizeof s, "[%d,%d]x[%d,%d]x[%d,%d]", lo[0], hi[0], lo[1], hi[1], lo[2], hi[2]);
    return s;
  }
};

static std::vector<LBox> AllBoxes(int N) {
  std::vector<std::pair<int, int>> iv;
  for (int l = 0; l < N; l++)
    for (int h = l + 1; h <= N; h++) iv.push_back({l, h});
  std::vector<LBox> bs;
  for (auto x : iv)
    for (auto y : iv)
      for (auto z : iv) {
        LBox b;
        b.lo[0] = x.first; b.hi[0] = x.second;
        b.lo[1] = y.first; b.hi[1] = y.second;
        b.lo[2] = z.first; b.hi[2] = z.second;
        bs.push_back(b);
      }
  return bs;
}

static Manifold MakeBox(const LBox& b) {
  // exact in doubles: integer sizes, integer translation
  return Manifold::Cube(vec3(b.hi[0] - b.lo[0], b.hi[1] - b.lo[1], b.hi[2] - b.lo[2]))
      .Translate(vec3(b.lo[0], b.lo[1], b.lo[2]));
}

struct Vox {
  int N = 0;
  std::vector<char> v;
  Vox() {}
  explicit Vox(int n) : N(n), v((size_t)n * n * n, 0) {}
  char& at(int i, int j, int k) { return v[((size_t)i * N + j) * N + k]; }
  char get(int i, int j, int k) const {
    if (i < 0 || j < 0 || k < 0 || i >= N || j >= N || k >= N) return 0;
    return v[((size_t)i * N + j) * N + k];
  }
  long count() const {
    long c = 0;
    for (char x : v) c += x;
    return c;
  }
  static Vox OfBox(int N, const LBox& b) {
    Vox x(N);
    for (int i = b.lo[0]; i < b.hi[0]; i++)
      for (int j = b.lo[1]; j < b.hi[1]; j++)
        for (int k = b.lo[2]; k < b.hi[2]; k++) x.at(i, j, k) = 1;
    return x;
  }
  static Vox Apply(const Vox& a, const Vox& b, int op) {
    Vox r(a.N);
    for (size_t q = 0; q < a.v.size(); q++)
      r.v[q] = op == 0 ? (a.v[q] | b.v[q]) : op == 1 ? (a.v[q] & !b.v[q]) : (a.v[q] & b.v[q]);
    return r;
  }
  // is the set a single box? (for shrinking)
  bool IsBox(LBox& out) const {
    int lo[3] = {N, N, N}, hi[3] = {0, 0, 0};
    long c = 0;
    for (int i = 0; i < N; i++)
      for (int j = 0; j < N; j++)
        for (int k = 0; k < N; k++)
          if (get(i, j, k)) {
            c++;
            int p[3] = {i, j, k};
            for (int a = 0; a < 3; a++) {
              lo[a] = std::min(lo[a], p[a]);
              hi[a] = std::max(hi[a], p[a] + 1);
            }
          }
    if (c == 0) return false;
    if (c != (long)(hi[0] - lo[0]) * (hi[1] - lo[1]) * (hi[2] - lo[2])) return false;
    for (int a = 0; a < 3; a++) { out.lo[a] = lo[a]; out.hi[a] = hi[a]; }
    return true;
  }
};

// ------------------------------------------------------------------ oracle
struct Verdict {
  bool ok = true;
  std::string kind;  // first failing clause
  std::string info;
  double volume = 0, soupVolume = 0;
  long expectVoxels = 0;
  size_t nTri = 0, nVert = 0;
  bool offLatticeVerts = false;  // observation only
  bool flat = false;             // non-empty mesh denoting the empty set
  int components = 0;
};

static int CountComponents(const MeshGL64& g) {
  size_t nv = g.vertProperties.size() / g.numProp;
  vo::UF uf(nv);
  for (size_t i = 0; i < g.mergeFromVert.size(); i++) uf.unite((uint32_t)g.mergeFromVert[i], (uint32_t)g.mergeToVert[i]);
  for (size_t t = 0; t + 2 < g.triVerts.size(); t += 3) {
    uf.unite((uint32_t)g.triVerts[t], (uint32_t)g.triVerts[t + 1]);
    uf.unite((uint32_t)g.triVerts[t], (uint32_t)g.triVerts[t + 2]);
  }
  std::vector<char> used(nv, 0);
  for (auto i : g.triVerts) used[i] = 1;
  int n = 0;
  for (size_t i = 0; i < nv; i++)
    if (used[i] && uf.find((uint32_t)i) == i) n++;
  return n;
}

static Verdict Check(vh::Ctx& c, const Manifold& r, const Vox& model) {
  Verdict v;
  const int N = model.N;
  v.expectVoxels = model.count();
  Manifold::Error st = r.Status();
  if (st != Manifold::Error::NoError) {
    v.ok = false;
    v.kind = std::string("status-") + vo::ErrName(st);
    return v;
  }
  MeshGL64 g = r.GetMeshGL64();
  vo::Soup s = vo::MakeSoup(g);
  v.nTri = s.t.size();
  v.nVert = s.v.size();
  v.volume = r.Volume();
  v.soupVolume = (double)vo::SoupVolume(s);
  v.components = CountComponents(g);
  c.count("lattice_results_checked");
  // (i) every triangle with non-zero area lies in an integer axis-aligned plane.
  // Intersection vertices are interpolated in double along face diagonals, so
  // a coordinate may be a few ulp off its plane; the slack is the result's own
  // tolerance (the most the general clause of the statement would grant).
  long double slack = r.GetTolerance();
  if (!(slack >= 0) || slack > 1e-9L) slack = 1e-9L;
  bool ulpOff = false;
  for (auto& x : s.v) {
    if (x.x != floorl(x.x) || x.y != floorl(x.y) || x.z != floorl(x.z)) v.offLatticeVerts = true;
  }
  for (size_t t = 0; t < s.t.size() && v.ok; t++) {
    V3 a = s.v[s.t[t][0]], b = s.v[s.t[t][1]], d = s.v[s.t[t][2]];
    V3 n = vo::cross(b - a, d - a);
    if (n.x == 0 && n.y == 0 && n.z == 0) continue;  // zero area: contributes nothing
    bool inPlane = false;
    long double av[3] = {a.x, a.y, a.z}, bv[3] = {b.x, b.y, b.z}, dv[3] = {d.x, d.y, d.z};
    for (int k = 0; k < 3; k++) {
      long double pl = roundl(av[k]);
      if (pl < 0 || pl > N) continue;
      if (fabsl(av[k] - pl) <= slack && fabsl(bv[k] - pl) <= slack && fabsl(dv[k] - pl) <= slack) {
        inPlane = true;
        if (av[k] != pl || bv[k] != pl || dv[k] != pl) ulpOff = true;
      }
    }
    if (!inPlane) {
      v.ok = false;
      v.kind = "surface-off-lattice";
      char buf[300];
      snprintf(buf, sizeof buf, "tri %zu: (%.17Lg,%.17Lg,%.17Lg) (%.17Lg,%.17Lg,%.17Lg) (%.17Lg,%.17Lg,%.17Lg)", t,
               a.x, a.y, a.z, b.x, b.y, b.z, d.x, d.y, d.z);
      v.info = buf;
    }
  }
  // (ii) classification at voxel centres and one quarter-offset point per voxel, with a shell
  long mism = 0, skipped = 0;
  std::string first;
  for (int i = -1; i <= N && mism < 4; i++)
    for (int j = -1; j <= N; j++)
      for (int k = -1; k <= N; k++) {
        int want = model.get(i, j, k);
        unsigned h = (unsigned)((i + 1) * 73 + (j + 1) * 19 + (k + 1) * 7);
        long double q[3] = {(h & 1) ? 0.25L : 0.75L, (h & 2) ? 0.25L : 0.75L, (h & 4) ? 0.25L : 0.75L};
        V3 pts[2] = {{i + 0.5L, j + 0.5L, k + 0.5L}, {i + q[0], j + q[1], k + q[2]}};
        const bool shell = i < 0 || j < 0 || k < 0 || i >= N || j >= N || k >= N;
        for (int pi = 0; pi < (shell ? 1 : 2); pi++) {
          V3 p = pts[pi];
          vo::Cls cl = vo::Classify(s, p);
          c.count("lattice_points_classified");
          if (!cl.integral) { skipped++; c.count("skipped_nonintegral_winding"); continue; }
          if (cl.w > 1 || cl.w < 0) c.count("lattice_winding_outside_0_1");
          // the result is a solid: winding exactly 1 inside, exactly 0 outside
          if (cl.w != want) {
            if (!mism) {
              char buf[200];
              snprintf(buf, sizeof buf, "point (%.2Lf,%.2Lf,%.2Lf): model %s, result winding %d", p.x, p.y, p.z, want ? "inside" : "outside", cl.w);
              first = buf;
            }
            mism++;
          }
        }
      }
  if (mism && v.ok) {
    v.ok = false;
    v.kind = "voxel-misclassified";
    v.info = first;
  }
  // (iii) volume
  if (v.ok && (std::fabs(v.soupVolume - (double)v.expectVoxels) > 1e-9 || !std::isfinite(v.soupVolume))) {
    v.ok = false;
    v.kind = "volume";
    v.info = "mesh volume " + f17(v.soupVolume) + " vs voxel count " + std::to_string(v.expectVoxels);
  }
  if (v.ok && std::fabs(v.volume - (double)v.expectVoxels) > 1e-9) {
    v.ok = false;
    v.kind = "Volume()-disagrees";
    v.info = "Volume() " + f17(v.volume) + " vs voxel count " + std::to_string(v.expectVoxels);
  }
  if (v.ok) {
    if (v.offLatticeVerts) c.count("lattice_results_with_offlattice_inplane_vertices");
    if (ulpOff) c.count("lattice_results_with_vertices_within_tolerance_but_not_exactly_on_their_plane");
    if (v.expectVoxels == 0 && v.nTri > 0) { v.flat = true; c.count("lattice_flat_results_denoting_empty_set"); }
  }
  return v;
}

// ------------------------------------------------------------------ expressions
struct Expr;
using EP = std::shared_ptr<Expr>;
struct Expr {
  int op = -1;  // -1 leaf box; 0,1,2 OpType
  bool batch = false;
  LBox box{};
  std::vector<EP> kids;
};
static EP Leaf(const LBox& b) {
  auto e = std::make_shared<Expr>();
  e->box = b;
  return e;
}
static EP Bin(int op, EP a, EP b) {
  auto e = std::make_shared<Expr>();
  e->op = op;
  e->kids = {a, b};
  return e;
}
static EP Batch(int op, std::vector<EP> ks) {
  auto e = std::make_shared<Expr>();
  e->op = op;
  e->batch = true;
  e->kids = std::move(ks);
  return e;
}
static EP Clone(const EP& e) {
  auto n = std::make_shared<Expr>(*e);
  for (auto& k : n->kids) k = Clone(k);
  return n;
}
static std::string Str(const EP& e) {
  if (e->op < 0) return e->box.str();
  if (e->batch) {
    std::string s = std::string("Batch") + kOpName[e->op] + "(";
    for (size_t i = 0; i < e->kids.size(); i++) s += (i ? ", " : "") + Str(e->kids[i]);
    return s + ")";
  }
  return "(" + Str(e->kids[0]) + " " + kOpChar[e->op] + " " + Str(e->kids[1]) + ")";
}
static void Leaves(const EP& e, std::vector<Expr*>& out) {
  if (e->op < 0) { out.push_back(e.get()); return; }
  for (auto& k : e->kids) Leaves(k, out);
}
static size_t Size(const EP& e) {
  size_t n = 1;
  for (auto& k : e->kids) n += Size(k);
  return n;
}
static void Nodes(EP& e, std::vector<EP*>& out) {
  out.push_back(&e);
  for (auto& k : e->kids) Nodes(k, out);
}

struct Value {
  Manifold m;
  Vox x;
  Verdict v;
};

// Evaluate bottom-up, eagerly (every node is forced by the oracle before its
// parent is built). Returns false and sets `failing` to the FIRST node (post
// order) whose result fails the oracle.
static bool Eval(vh::Ctx& c, const EP& e, int N, Value& out, EP* failing, Verdict* fv, long& budget) {
  if (e->op < 0) {
    out.m = MakeBox(e->box);
    out.x = Vox::OfBox(N, e->box);
    out.v = Verdict();
    return true;
  }
  std::vector<Value> ks(e->kids.size());
  for (size_t i = 0; i < e->kids.size(); i++)
    if (!Eval(c, e->kids[i], N, ks[i], failing, fv, budget)) return false;
  budget--;
  if (e->batch) {
    std::vector<Manifold> ms;
    for (auto& k : ks) ms.push_back(k.m);
    out.m = Manifold::BatchBoolean(ms, (OpType)e->op);
    out.x = ks[0].x;
    for (size_t i = 1; i < ks.size(); i++) out.x = Vox::Apply(out.x, ks[i].x, e->op);
  } else {
    out.m = ks[0].m.Boolean(ks[1].m, (OpType)e->op);
    out.x = Vox::Apply(ks[0].x, ks[1].x, e->op);
  }
  out.v = Check(c, out.m, out.x);
  if (!out.v.ok) {
    if (failing) *failing = e;
    if (fv) *fv = out.v;
    return false;
  }
  return true;
}

// ------------------------------------------------------------------ relation signature
// Per-axis interval relation, mirror-invariant:
//   d gap, t touch, o partial overlap, = equal,
//   c a contains b sharing one end, C strictly, i/I the converse.
static char AxisRel(int al, int ah, int bl, int bh) {
  if (ah < bl || bh < al) return 'd';
  if (ah == bl || bh == al) return 't';
  if (al == bl && ah == bh) return '=';
  if (al <= bl && bh <= ah) return (al == bl || ah == bh) ? 'c' : 'C';
  if (bl <= al && ah <= bh) return (al == bl || ah == bh) ? 'i' : 'I';
  return 'o';
}
// Coordinate-free contact type of two boxes.
static std::string PairRel(const LBox& a, const LBox& b, bool fine = false) {
  int nd = 0, nt = 0, ne = 0, nc = 0, ni = 0, no = 0, shared = 0;
  for (int k = 0; k < 3; k++) {
    char r = AxisRel(a.lo[k], a.hi[k], b.lo[k], b.hi[k]);
    if (r == 'd') nd++;
    else if (r == 't') nt++;
    else if (r == '=') { ne++; shared += 2; }
    else if (r == 'c' || r == 'C') { nc++; if (r == 'c') shared++; }
    else if (r == 'i' || r == 'I') { ni++; if (r == 'i') shared++; }
    else no++;
  }
  if (nd) return "apart";
  if (nt == 3) return "touch-vertex";
  if (nt == 2) return "touch-edge";
  if (nt == 1) return "touch-face";
  std::string s;
  if (ne == 3) return "equal";
  if (no == 0 && ni == 0) s = "contains";       // a contains b
  else if (no == 0 && nc == 0) s = "inside";    // a inside b
  else s = "overlap";
  return fine ? s + "/" + std::to_string(shared) + "coplanar" : s;
}

// canonical, coordinate-free description of an expression over boxes:
// shape with leaves lettered by first occurrence (equal boxes = same letter),
// then the contact type of every pair of distinct boxes.
static std::string Signature(const EP& e, bool fine = false) {
  std::vector<Expr*> ls;
  Leaves(e, ls);
  std::vector<LBox> distinct;
  auto letter = [&](const LBox& b) {
    for (size_t i = 0; i < distinct.size(); i++)
      if (distinct[i] == b) return (char)('a' + i);
    distinct.push_back(b);
    return (char)('a' + distinct.size() - 1);
  };
  std::function<std::string(const EP&)> shape = [&](const EP& x) -> std::string {
    if (x->op < 0) return std::string(1, letter(x->box));
    if (x->batch) {
      std::string s = std::string("B") + kOpChar[x->op] + "(";
      for (size_t i = 0; i < x->kids.size(); i++) {
        std::string k = shape(x->kids[i]);
        s += (i ? "," : "") + k;
      }
      return s + ")";
    }
    std::string l = shape(x->kids[0]);  // sequenced: letters follow reading order
    std::string r = shape(x->kids[1]);
    return "(" + l + kOpChar[x->op] + r + ")";
  };
  std::string s = shape(e);
  for (size_t i = 0; i < distinct.size(); i++)
    for (size_t j = i + 1; j < distinct.size(); j++)
      s += std::string(";") + (char)('a' + i) + (char)('a' + j) + "=" + PairRel(distinct[i], distinct[j], fine);
  return s;
}


// ------------------------------------------------------------------ operand classes (for keys)
// Coordinate-free description of HOW an operand is only marginally valid. All
// plain box pairs work on the pinned tree; the wrong results need an operand
// that is itself a library result with one of these features.
static bool NonManifoldContact(const Vox& x) {
  const int N = x.N;
  // lattice edges: the four voxels around an edge filled diagonally
  for (int i = 0; i <= N; i++)
    for (int j = 0; j <= N; j++)
      for (int k = 0; k <= N; k++) {
        // edge along z through (i,j), voxels (i-1|i, j-1|j, k)
        if (k < N) { int a = x.get(i - 1, j - 1, k), b = x.get(i, j - 1, k), c2 = x.get(i - 1, j, k), d = x.get(i, j, k); if ((a && d && !b && !c2) || (b && c2 && !a && !d)) return true; }
        if (j < N) { int a = x.get(i - 1, j, k - 1), b = x.get(i, j, k - 1), c2 = x.get(i - 1, j, k), d = x.get(i, j, k); if ((a && d && !b && !c2) || (b && c2 && !a && !d)) return true; }
        if (i < N) { int a = x.get(i, j - 1, k - 1), b = x.get(i, j, k - 1), c2 = x.get(i, j - 1, k), d = x.get(i, j, k); if ((a && d && !b && !c2) || (b && c2 && !a && !d)) return true; }
        // lattice vertex: filled (and empty) voxels among the 8 around it must be face-connected
        for (int want = 0; want < 2; want++) {
          int cell[8], n = 0, first = -1;
          for (int q = 0; q < 8; q++) {
            cell[q] = x.get(i - 1 + (q & 1), j - 1 + ((q >> 1) & 1), k - 1 + ((q >> 2) & 1)) == want;
            if (cell[q]) { n++; if (first < 0) first = q; }
          }
          if (n == 0 || n == 8) continue;
          int seen = 1 << first, grow = 1;
          while (grow) {
            grow = 0;
            for (int q = 0; q < 8; q++)
              if ((seen >> q) & 1)
                for (int b = 0; b < 3; b++) {
                  int o = q ^ (1 << b);
                  if (cell[o] && !((seen >> o) & 1)) { seen |= 1 << o; grow = 1; }
                }
          }
          int cnt = 0;
          for (int q = 0; q < 8; q++) cnt += (seen >> q) & 1;
          if (cnt != n) return true;
        }
      }
  return false;
}
static long BoundaryFaces(const Vox& x) {
  long f = 0;
  const int N = x.N;
  for (int i = 0; i < N; i++)
    for (int j = 0; j < N; j++)
      for (int k = 0; k < N; k++)
        if (x.get(i, j, k))
          f += !x.get(i - 1, j, k) + !x.get(i + 1, j, k) + !x.get(i, j - 1, k) + !x.get(i, j + 1, k) + !x.get(i, j, k - 1) + !x.get(i, j, k + 1);
  return f;
}
static std::string MeshClass(const Manifold& m, const Vox& x) {
  MeshGL64 g = m.GetMeshGL64();
  vo::Soup s = vo::MakeSoup(g);
  if (s.t.empty()) return "empty";
  if (x.count() == 0) return "flat-sheet";
  LBox bx;
  if (x.IsBox(bx) && s.v.size() == 8 && s.t.size() == 12) return "box";
  // one dominant feature, most degenerate first (keeps the key space small and stable)
  if ((double)vo::SoupArea(s) > (double)BoundaryFaces(x) + 1e-9) return "solid[double-wall]";
  if (NonManifoldContact(x)) return "solid[nonmanifold-contact]";
  // redundant vertices: all incident non-degenerate triangles lie in <= 2 plane directions
  // (a vertex inside a face or inside a straight edge), or vertices off the lattice
  std::vector<int> dirs(s.v.size(), 0);
  for (auto& t : s.t) {
    V3 n = vo::cross(s.v[t[1]] - s.v[t[0]], s.v[t[2]] - s.v[t[0]]);
    long double ax = fabsl(n.x), ay = fabsl(n.y), az = fabsl(n.z);
    if (ax == 0 && ay == 0 && az == 0) continue;
    int d = ax >= ay && ax >= az ? (n.x > 0 ? 1 : 2) : ay >= az ? (n.y > 0 ? 4 : 8) : (n.z > 0 ? 16 : 32);
    for (int k = 0; k < 3; k++) dirs[t[k]] |= d;
  }
  for (size_t i = 0; i < s.v.size(); i++) {
    if (__builtin_popcount(dirs[i]) <= 2 && dirs[i]) return "solid[redundant-verts]";
    if (s.v[i].x != floorl(s.v[i].x) || s.v[i].y != floorl(s.v[i].y) || s.v[i].z != floorl(s.v[i].z)) return "solid[redundant-verts]";
  }
  return "solid";
}
static std::string SetRel(const Vox& a, const Vox& b) {
  long na = a.count(), nb = b.count(), ni = 0;
  for (size_t q = 0; q < a.v.size(); q++) ni += a.v[q] && b.v[q];
  if (na == 0 || nb == 0) return "one-empty";
  if (ni == na && ni == nb) return "X=Y";
  if (ni == na) return "X-inside-Y";
  if (ni == nb) return "X-contains-Y";
  if (ni > 0) return "overlap";
  return "interiors-disjoint";
}

// ------------------------------------------------------------------ shrinking
struct Shrunk {
  EP expr;       // failing expression (its root is the failing step)
  Verdict v;
  int N;
  int evals = 0;
  bool reproducedAsTree = true;
};

// does `cand` fail? if so, `cand` is replaced by its first failing sub-expression
static bool Fails(vh::Ctx& c, EP& cand, int N, Verdict& v, int& evals) {
  Value out;
  EP failing;
  long budget = 1000;
  evals++;
  c.heartbeat();
  if (Eval(c, cand, N, out, &failing, &v, budget)) return false;
  cand = failing;
  return true;
}

static int MaxCoord(const EP& e) {
  std::vector<Expr*> ls;
  Leaves(e, ls);
  int m = 1;
  for (auto l : ls)
    for (int k = 0; k < 3; k++) m = std::max(m, l->box.hi[k]);
  return m;
}

static Shrunk Shrink(vh::Ctx& c, const EP& start, int N) {
  Shrunk s;
  s.expr = Clone(start);
  s.N = N;
  if (!Fails(c, s.expr, N, s.v, s.evals)) {
    s.reproducedAsTree = false;
    s.expr = Clone(start);
    return s;
  }
  bool progress = true;
  while (progress && s.evals < 400) {
    progress = false;
    // (a) replace a node by one of its children / by the box it denotes
    {
      std::vector<EP*> nodes;
      Nodes(s.expr, nodes);
      for (size_t ni = 0; ni < nodes.size() && !progress; ni++) {
        Expr* n = nodes[ni]->get();
        if (n->op < 0) continue;
        std::vector<EP> repl;
        for (auto& k : n->kids) repl.push_back(k);
        if (n->batch && n->kids.size() > 2) {
          for (size_t d = 0; d < n->kids.size(); d++) {  // drop one operand of a batch
            auto b = std::make_shared<Expr>(*n);
            b->kids.erase(b->kids.begin() + d);
            repl.push_back(b);
          }
        }
        if (nodes[ni] != &s.expr) {
          // the box it denotes (only below the root: the root is the failing step)
          Value tmp;
          long budget = 1000;
          EP dummy;
          Verdict dv;
          if (Eval(c, *nodes[ni], N, tmp, &dummy, &dv, budget)) {
            LBox bx;
            if (tmp.x.IsBox(bx)) repl.push_back(Leaf(bx));
          }
        }
        for (auto& r : repl) {
          EP saved = *nodes[ni];
          EP whole;
          // build candidate: copy of the tree with this node replaced
          *nodes[ni] = r;
          whole = Clone(s.expr);
          *nodes[ni] = saved;
          Verdict v;
          if (Size(whole) < Size(s.expr) && Fails(c, whole, N, v, s.evals)) {
            s.expr = whole;
            s.v = v;
            progress = true;
            break;
          }
        }
      }
    }
    if (progress) continue;
    // (a') a BatchBoolean that also fails as a left-nested chain of binary steps: blame the binary step
    {
      std::vector<EP*> nodes;
      Nodes(s.expr, nodes);
      for (size_t ni = 0; ni < nodes.size() && !progress; ni++) {
        Expr* n = nodes[ni]->get();
        if (n->op < 0 || !n->batch) continue;
        EP chain;
        if (n->op == 1 && n->kids.size() > 2) {  // k0 - (k1 + k2 + ...)
          EP neg = n->kids[1];
          for (size_t i = 2; i < n->kids.size(); i++) neg = Bin(0, neg, n->kids[i]);
          chain = Bin(1, n->kids[0], neg);
        } else {
          chain = n->kids[0];
          for (size_t i = 1; i < n->kids.size(); i++) chain = Bin(n->op, chain, n->kids[i]);
        }
        EP saved = *nodes[ni];
        *nodes[ni] = chain;
        EP whole = Clone(s.expr);
        *nodes[ni] = saved;
        Verdict v;
        if (Fails(c, whole, N, v, s.evals)) {
          s.expr = whole;
          s.v = v;
          progress = true;
        }
      }
    }
    if (progress) continue;
    // (b) shrink one box by one unit on one side (all equal copies together)
    {
      std::vector<Expr*> ls;
      Leaves(s.expr, ls);
      for (size_t li = 0; li < ls.size() && !progress; li++)
        for (int k = 0; k < 3 && !progress; k++)
          for (int side = 0; side < 2 && !progress; side++) {
            LBox old = ls[li]->box, nb = old;
            if (nb.hi[k] - nb.lo[k] < 2) continue;
            if (side) nb.hi[k]--; else nb.lo[k]++;
            EP cand = Clone(s.expr);
            std::vector<Expr*> cl;
            Leaves(cand, cl);
            for (auto x : cl)
              if (x->box == old) x->box = nb;
            Verdict v;
            if (Fails(c, cand, N, v, s.evals)) {
              s.expr = cand;
              s.v = v;
              progress = true;
            }
          }
    }
    if (progress) continue;
    // (c) compress coordinates per axis to ranks 0,1,2,...
    {
      EP cand = Clone(s.expr);
      std::vector<Expr*> cl;
      Leaves(cand, cl);
      bool changed = false;
      for (int k = 0; k < 3; k++) {
        std::vector<int> vals;
        for (auto x : cl) { vals.push_back(x->box.lo[k]); vals.push_back(x->box.hi[k]); }
        std::sort(vals.begin(), vals.end());
        vals.erase(std::unique(vals.begin(), vals.end()), vals.end());
        for (auto x : cl) {
          int nl = (int)(std::lower_bound(vals.begin(), vals.end(), x->box.lo[k]) - vals.begin());
          int nh = (int)(std::lower_bound(vals.begin(), vals.end(), x->box.hi[k]) - vals.begin());
          if (nl != x->box.lo[k] || nh != x->box.hi[k]) changed = true;
          x->box.lo[k] = nl;
          x->box.hi[k] = nh;
        }
      }
      Verdict v;
      if (changed && Fails(c, cand, N, v, s.evals)) {
        s.expr = cand;
        s.v = v;
        progress = true;
      }
    }
  }
  return s;
}

// Shrinking is bounded per worker process: on a tree where (nearly) every
// Boolean is wrong the first few witnesses are shrunk and the rest are
// reported as they are, so that the run stays bounded.
static long g_shrinkEvals = 0;
static void Report(vh::Ctx& c, const std::string& family, const EP& failingExpr, int N, const Verdict& v0,
                   const std::string& program) {
  c.count("lattice_violations_before_shrinking");
  if (g_shrinkEvals > 1500) {
    c.count("lattice_violations_not_shrunk");
    c.violation(std::string("lattice:") + (failingExpr->op >= 0 ? kOpName[failingExpr->op] : "Leaf") + ":wrong-result:unshrunk(shrink-budget-of-this-worker-spent)",
                vh::J().s("family", family).s("failing_step", Str(failingExpr)).s("clause", v0.kind).s("info", v0.info)
                    .d("result_volume", v0.soupVolume).i("expected_voxels", v0.expectVoxels).i("N", N).s("program", program).str());
    return;
  }
  Shrunk s = Shrink(c, failingExpr, N);
  g_shrinkEvals += s.evals;
  const EP& e = s.expr;
  const Verdict& v = s.reproducedAsTree ? s.v : v0;
  std::string opn = e->op >= 0 ? kOpName[e->op] : "Leaf";
  // key = operation + HOW the operands of the (shrunk) failing step are marginal + their set relation
  std::string cls = "not-reproducible-as-tree";
  if (s.reproducedAsTree && e->op >= 0) {
    std::vector<Value> ks(e->kids.size());
    std::vector<std::string> kc;
    bool evalOk = true;
    for (size_t i = 0; i < e->kids.size() && evalOk; i++) {
      long budget = 1000;
      EP dummy;
      Verdict dv;
      evalOk = Eval(c, e->kids[i], N, ks[i], &dummy, &dv, budget);
      if (evalOk) kc.push_back(MeshClass(ks[i].m, ks[i].x));
    }
    if (!evalOk) cls = "operand-evaluation-unstable";
    else if (e->batch) {
      std::sort(kc.begin(), kc.end());
      kc.erase(std::unique(kc.begin(), kc.end()), kc.end());
      cls = "batch(";
      for (size_t i = 0; i < kc.size(); i++) cls += (i ? "|" : "") + kc[i];
      cls += ")";
    } else
      cls = "X=" + kc[0] + ":Y=" + kc[1] + ":" + SetRel(ks[0].x, ks[1].x);
  }
  std::string key = "lattice:" + opn + ":wrong-result:" + cls;
  c.violation(key, vh::J().s("family", family).s("failing_step", Str(failingExpr)).s("shrunk", Str(e))
                       .s("shrunk_signature", Signature(e, true)).s("operand_classes", cls).s("clause", v.kind).s("info", v.info)
                       .d("result_volume", v.soupVolume).i("expected_voxels", v.expectVoxels)
                       .i("result_tris", (long long)v.nTri).i("shrink_evaluations", s.evals)
                       .i("N", N).s("program", program).str());
}

// ------------------------------------------------------------------ stage: pairs
static void PairCase(vh::Ctx& c) {
  const int N = 3;
  static const std::vector<LBox> boxes = AllBoxes(N);
  const long nb = (long)boxes.size(), nPairs = nb * nb;
  const long block = c.iparam("block", 16);
  const bool exhaustive = c.iparam("exhaustive", 0) != 0;
  std::vector<long> pairs;
  if (exhaustive) {
    for (long p = c.idx * block; p < std::min(nPairs, (c.idx + 1) * block); p++) pairs.push_back(p);
  } else {
    for (long i = 0; i < block; i++) pairs.push_back((long)c.rng.below((uint64_t)nPairs));
  }
  for (long p : pairs) {
    const LBox& a = boxes[p / nb];
    const LBox& b = boxes[p % nb];
    Manifold A = MakeBox(a), B = MakeBox(b);
    Vox xa = Vox::OfBox(N, a), xb = Vox::OfBox(N, b);
    c.count("lattice_pairs_enumerated");
    for (int op = 0; op < 3; op++) {
      c.site(std::string("lattice-pair:") + kOpName[op]);
      Manifold R = A.Boolean(B, (OpType)op);
      Vox xr = Vox::Apply(xa, xb, op);
      Verdict v = Check(c, R, xr);
      c.count("lattice_pair_booleans");
      if (!v.ok) {
        EP e = Bin(op, Leaf(a), Leaf(b));
        Report(c, "pairs", e, N, v, Str(e));
      } else if (v.nTri > 0) {
        c.sig(std::string("P") + kOpChar[op] + PairRel(a, b) + "#" + std::to_string(v.nTri / 8));
      }
    }
  }
}

// ------------------------------------------------------------------ stage: programs
struct PoolVal {
  Manifold m;
  Vox x;
  EP e;
  bool offLattice = false;
};

static LBox RandBox(vh::Rng& r, int N, const std::vector<PoolVal>& pool) {
  LBox b;
  // bias endpoints towards endpoints already in use (coincidences)
  std::vector<int> used[3];
  for (auto& p : pool) {
    std::vector<Expr*> ls;
    Leaves(p.e, ls);
    for (auto l : ls)
      for (int k = 0; k < 3; k++) { used[k].push_back(l->box.lo[k]); used[k].push_back(l->box.hi[k]); }
  }
  for (int k = 0; k < 3; k++) {
    int a, bb;
    do {
      a = (!used[k].empty() && r.chance(0.6)) ? used[k][r.below(used[k].size())] : r.range(0, N);
      bb = (!used[k].empty() && r.chance(0.6)) ? used[k][r.below(used[k].size())] : r.range(0, N);
    } while (a == bb);
    b.lo[k] = std::min(a, bb);
    b.hi[k] = std::max(a, bb);
  }
  return b;
}

static void ProgramCase(vh::Ctx& c) {
  const int maxN = (int)c.iparam("maxN", 6), depth = (int)c.iparam("depth", 6);
  const int N = c.rng.range(2, maxN);
  std::vector<PoolVal> pool;
  std::string program;
  auto addBox = [&]() {
    LBox b = RandBox(c.rng, N, pool);
    PoolVal v;
    v.m = MakeBox(b);
    v.x = Vox::OfBox(N, b);
    v.e = Leaf(b);
    program += "v" + std::to_string(pool.size()) + " = Box" + b.str() + "\n";
    pool.push_back(std::move(v));
  };
  addBox();
  addBox();
  int booleans = 0;
  std::string shape;
  const int steps = c.rng.range(2, depth);
  while (booleans < steps) {
    if (c.rng.chance(0.25)) { addBox(); continue; }
    int op = c.rng.range(0, 2);
    PoolVal r;
    std::string how;
    if (c.rng.chance(0.12) && pool.size() >= 3) {
      int k = c.rng.range(3, std::min<int>(6, (int)pool.size() + 1));
      std::vector<Manifold> ms;
      std::vector<EP> es;
      how = std::string("Batch") + kOpName[op] + "(";
      for (int i = 0; i < k; i++) {
        int j = (int)c.rng.below(pool.size());
        ms.push_back(pool[j].m);
        es.push_back(pool[j].e);
        r.x = i == 0 ? pool[j].x : Vox::Apply(r.x, pool[j].x, op);
        how += (i ? ",v" : "v") + std::to_string(j);
      }
      how += ")";
      c.site(std::string("lattice-prog:Batch") + kOpName[op]);
      r.m = Manifold::BatchBoolean(ms, (OpType)op);
      r.e = Batch(op, es);
      shape += std::string("B") + kOpChar[op] + std::to_string(k);
    } else {
      // prefer recent values, allow the same value twice (whole copies)
      auto pick = [&]() {
        if (c.rng.chance(0.5) && pool.size() > 2) return (int)pool.size() - 1 - (int)c.rng.below(std::min<size_t>(3, pool.size()));
        return (int)c.rng.below(pool.size());
      };
      int i = pick(), j = pick();
      c.site(std::string("lattice-prog:") + kOpName[op]);
      r.m = pool[i].m.Boolean(pool[j].m, (OpType)op);
      r.x = Vox::Apply(pool[i].x, pool[j].x, op);
      r.e = Bin(op, pool[i].e, pool[j].e);
      how = "v" + std::to_string(i) + " " + kOpChar[op] + " v" + std::to_string(j);
      shape += kOpChar[op];
      shape += (pool[i].e->op < 0 ? 'b' : 'r');
      shape += (pool[j].e->op < 0 ? 'b' : 'r');
      if (i == j) shape += '=';
    }
    booleans++;
    c.count("lattice_program_booleans");
    program += "v" + std::to_string(pool.size()) + " = " + how + "\n";
    Verdict v = Check(c, r.m, r.x);
    if (!v.ok) {
      c.count("precondition_lost");
      if (Size(r.e) > 400) {
        c.violation(std::string("lattice:") + kOpName[op] + ":wrong-result:too-large-to-shrink",
                    vh::J().s("clause", v.kind).s("info", v.info).s("program", program).str());
      } else
        Report(c, "programs", r.e, N, v, program);
      return;  // chain stops at a wrong result
    }
    r.offLattice = v.offLatticeVerts;
    if (v.nTri > 0) c.count("lattice_program_nonempty_results");
    pool.push_back(std::move(r));
  }
  c.sig("G" + std::to_string(N) + shape);
  if (c.idx % 211 == 0) c.sample(vh::J().s("stage", "lattice-progs").i("idx", c.idx).i("N", N).s("program", program).str());
}

// ------------------------------------------------------------------ stage: touching unions
// X op (P+Q) and (P+Q) op X where P and Q only touch (edge or vertex) and X is
// a box related to both. Enumerates by case index a seeded sample of the
// family on [0,3]^3.
static void TouchCase(vh::Ctx& c) {
  const int N = 3;
  static const std::vector<LBox> boxes = AllBoxes(N);
  // all (P,Q) pairs touching along an edge or at a vertex
  static std::vector<std::pair<int, int>> touching;
  if (touching.empty())
    for (size_t i = 0; i < boxes.size(); i++)
      for (size_t j = 0; j < boxes.size(); j++) {
        std::string r = PairRel(boxes[i], boxes[j]);
        if (r == "touch-edge" || r == "touch-vertex") touching.push_back({(int)i, (int)j});
      }
  const int per = (int)c.iparam("per", 24);
  // Cases 0..5: regression sub-family, fully enumerated: for six fixed edge-touching (P,Q)
  // every box X that touches one of them along an edge and shares volume with the other,
  // X - (P+Q), X ^ (P+Q), X - (Q+P), X ^ (Q+P).
  static const LBox seedsP[6] = {{{0, 1, 1}, {3, 2, 2}}, {{0, 1, 0}, {2, 3, 1}}, {{1, 0, 0}, {3, 1, 1}},
                                 {{0, 0, 0}, {1, 2, 1}}, {{1, 1, 1}, {2, 2, 2}}, {{0, 0, 0}, {1, 3, 2}}};
  static const LBox seedsQ[6] = {{{1, 0, 0}, {2, 1, 1}}, {{2, 2, 1}, {3, 3, 2}}, {{2, 1, 1}, {3, 2, 2}},
                                 {{1, 1, 1}, {2, 2, 2}}, {{2, 2, 0}, {3, 3, 3}}, {{1, 2, 2}, {2, 3, 3}}};
  if (c.idx < 6) {
    const LBox &P = seedsP[c.idx], &Q = seedsQ[c.idx];
    auto vol = [](const std::string& r) { return r == "contains" || r == "inside" || r == "overlap" || r == "equal"; };
    for (auto& X : boxes) {
      std::string rp = PairRel(X, P), rq = PairRel(X, Q);
      if (!((rp == "touch-edge" && vol(rq)) || (rq == "touch-edge" && vol(rp)))) continue;
      for (int op = 1; op <= 2; op++)
        for (int order = 0; order < 2; order++) {
          EP u = order ? Bin(0, Leaf(Q), Leaf(P)) : Bin(0, Leaf(P), Leaf(Q));
          EP e = Bin(op, Leaf(X), u);
          Value out;
          EP failing;
          Verdict fv;
          long budget = 100;
          c.site(std::string("lattice-touch:") + kOpName[op]);
          c.count("lattice_touch_programs");
          c.count("lattice_touch_regression_programs");
          if (!Eval(c, e, N, out, &failing, &fv, budget)) Report(c, "touch-regression", failing, N, fv, Str(e));
          else if (out.v.nTri > 0) c.sig(std::string("TR") + kOpChar[op] + PairRel(X, P) + PairRel(X, Q));
        }
      c.heartbeat();
    }
    return;
  }
  // Cases 6,7: regression sub-family for the "union with a box inside an earlier union" defect
  // (volume 7 instead of 8): X + (A+B) and (A+B) + X for two fixed (A,B) and every box X that is
  // not apart from both. Case 8: A + ((A^B)^B) for every box B that touches the fixed A on a face.
  if (c.idx == 6 || c.idx == 7) {
    static const LBox fa[2] = {{{0, 0, 2}, {2, 3, 3}}, {{0, 0, 1}, {1, 3, 2}}};
    static const LBox fb[2] = {{{0, 1, 2}, {3, 3, 3}}, {{0, 1, 1}, {2, 3, 2}}};
    const LBox &A = fa[c.idx - 6], &B = fb[c.idx - 6];
    for (auto& X : boxes) {
      if (PairRel(X, A) == "apart" && PairRel(X, B) == "apart") continue;
      for (int order = 0; order < 2; order++) {
        EP u = Bin(0, Leaf(A), Leaf(B));
        EP e = order ? Bin(0, u, Leaf(X)) : Bin(0, Leaf(X), u);
        Value out;
        EP failing;
        Verdict fv;
        long budget = 100;
        c.site("lattice-touch:Add");
        c.count("lattice_touch_programs");
        c.count("lattice_touch_regression_programs");
        if (!Eval(c, e, N, out, &failing, &fv, budget)) Report(c, "union-regression", failing, N, fv, Str(e));
        else if (out.v.nTri > 0) c.sig(std::string("UR") + (order ? "L" : "R") + PairRel(X, A) + PairRel(X, B));
      }
      c.heartbeat();
    }
    return;
  }
  if (c.idx == 8) {
    const LBox A = {{1, 2, 0}, {2, 3, 1}};
    for (auto& B : boxes) {
      if (PairRel(A, B) != "touch-face") continue;
      EP e = Bin(0, Leaf(A), Bin(2, Bin(2, Leaf(A), Leaf(B)), Leaf(B)));
      Value out;
      EP failing;
      Verdict fv;
      long budget = 100;
      c.site("lattice-touch:Add");
      c.count("lattice_touch_programs");
      c.count("lattice_touch_regression_programs");
      if (!Eval(c, e, N, out, &failing, &fv, budget)) Report(c, "sheet-regression", failing, N, fv, Str(e));
      else if (out.v.nTri > 0) c.sig(std::string("SR") + PairRel(A, B, true));
      c.heartbeat();
    }
    return;
  }
  for (int n = 0; n < per; n++) {
    auto pq = touching[c.rng.below(touching.size())];
    const LBox &P = boxes[pq.first], &Q = boxes[pq.second];
    // X: related to both; in half of the programs X touches one of them along
    // an edge and shares volume with the other (where the pinned tree fails)
    LBox X;
    const bool targeted = c.rng.chance(0.5);
    for (int tries = 0; tries < 400; tries++) {
      X = boxes[c.rng.below(boxes.size())];
      std::string rp = PairRel(X, P), rq = PairRel(X, Q);
      auto vol = [](const std::string& r) { return r == "contains" || r == "inside" || r == "overlap" || r == "equal"; };
      if (targeted) {
        if ((rp == "touch-edge" && vol(rq)) || (rq == "touch-edge" && vol(rp))) break;
      } else if (rp != "apart" && rq != "apart")
        break;
    }
    int op = c.rng.range(0, 2);
    bool left = c.rng.chance(targeted ? 0.25 : 0.5);
    EP u = Bin(0, Leaf(P), Leaf(Q));
    EP e = left ? Bin(op, u, Leaf(X)) : Bin(op, Leaf(X), u);
    Value out;
    EP failing;
    Verdict fv;
    long budget = 100;
    c.site(std::string("lattice-touch:") + kOpName[op]);
    c.count("lattice_touch_programs");
    if (!Eval(c, e, N, out, &failing, &fv, budget)) {
      Report(c, "touch", failing, N, fv, Str(e));
    } else if (out.v.nTri > 0) {
      c.sig(std::string("T") + kOpChar[op] + (left ? "L" : "R") + PairRel(P, Q) + PairRel(X, P) + PairRel(X, Q));
    }
  }
}

}  // namespace lat

// ===========================================================================
// general position
// ===========================================================================
namespace gp {

struct Opnd {
  Manifold m;
  std::string how, kind;
  MeshGL64 mesh;
  vo::Soup soup;
  long double area = 0, vol = 0;
};

static Polygons Star(vh::Rng& r, int n, double rad, bool hole) {
  // star-shaped w.r.t. the origin => simple. Hole only for n >= 5: the chord
  // between two outer vertices at radius >= 0.55 rad stays >= 0.44 rad away.
  Polygons p(1);
  for (int i = 0; i < n; i++) {
    double rr = rad * r.uni(0.55, 1.4), a = 2 * kPi * (i + r.uni(-0.2, 0.2)) / n;
    p[0].push_back({rr * cos(a), rr * sin(a)});
  }
  if (hole && n >= 5) {
    p.emplace_back();
    int k = r.range(3, 6);
    for (int i = k - 1; i >= 0; i--) {
      double a = 2 * kPi * i / k + 0.3;
      p[1].push_back({0.25 * rad * cos(a), 0.25 * rad * sin(a)});
    }
  }
  return p;
}

static int g_detail = 1;  // stage parameter `detail`: multiplies segment / point counts
// eps-valid by construction, canonical pose, size O(1)
static Manifold Primitive(vh::Rng& r, std::string& how, std::string& kind) {
  if (g_detail >= 6 && r.chance(0.4)) {  // PAR stage: >= 1e4 triangles, crosses the autoPolicy thresholds
    double rad = r.uni(0.6, 1.3);
    int seg = 4 * r.range(36, 48);
    kind = "BigSphere";
    how = "Sphere(" + f17(rad) + "," + std::to_string(seg) + ")";
    return Manifold::Sphere(rad, seg);
  }
  int k = r.range(0, 9);
  switch (k) {
    case 0: case 1: {
      vec3 s(r.uni(0.4, 2), r.uni(0.4, 2), r.uni(0.4, 2));
      kind = "Cube";
      how = "Cube(" + f17(s.x) + "," + f17(s.y) + "," + f17(s.z) + ",center)";
      return Manifold::Cube(s, true);
    }
    case 2: kind = "Tet"; how = "Tetrahedron()"; return Manifold::Tetrahedron();
    case 3: case 4: {
      double rad = r.uni(0.4, 1.3);
      int seg = 4 * r.range(1, 5 * g_detail);
      kind = "Sphere";
      how = "Sphere(" + f17(rad) + "," + std::to_string(seg) + ")";
      return Manifold::Sphere(rad, seg);
    }
    case 5: {
      double h = r.uni(0.5, 2), r1 = r.uni(0.3, 1.2), r2 = r.chance(0.3) ? -1.0 : (r.chance(0.25) ? 0.0 : r.uni(0.3, 1.2));
      int seg = r.range(3, 16 * g_detail);
      kind = "Cylinder";
      how = "Cylinder(" + f17(h) + "," + f17(r1) + "," + f17(r2) + "," + std::to_string(seg) + ",center)";
      return Manifold::Cylinder(h, r1, r2, seg, true);
    }
    case 6: {
      int n = r.range(6, 30 * g_detail);
      std::vector<vec3> pts(n);
      for (auto& p : pts) p = vec3(r.uni(-1, 1), r.uni(-1, 1), r.uni(-1, 1));
      kind = "Hull";
      std::string s = "Hull({";
      for (auto& p : pts) s += "(" + f17(p.x) + "," + f17(p.y) + "," + f17(p.z) + ")";
      how = s + "})";
      return Manifold::Hull(pts);
    }
    case 7: case 8: {
      int n = r.range(3, 10);
      bool hole = r.chance(0.4);
      double rad = r.uni(0.5, 1.2);
      Polygons p = Star(r, n, rad, hole);
      double h = r.uni(0.4, 2);
      int div = r.range(0, 2);
      bool cone = !hole && p.size() == 1 && r.chance(0.2);
      double st = cone ? 0.0 : (r.chance(0.5) ? 1.0 : r.uni(0.4, 1.3));
      kind = "Extrude";
      std::string s = "Extrude({";
      for (auto& ring : p) { s += "["; for (auto& q : ring) s += "(" + f17(q.x) + "," + f17(q.y) + ")"; s += "]"; }
      how = s + "},h=" + f17(h) + ",div=" + std::to_string(div) + ",twist=0,scaleTop=" + f17(st) + ")";
      return Manifold::Extrude(p, h, div, 0.0, vec2(st));
    }
    default: {
      int n = r.range(3, 8);
      double rad = r.uni(0.3, 0.6);
      Polygons p = Star(r, n, rad, false);
      double off = rad * r.uni(1.7, 3.0);  // max radius 1.4 rad => x > 0.3 rad
      for (auto& q : p[0]) q.x += off;
      int seg = r.range(3, 12 * g_detail);
      double deg = r.chance(0.5) ? 360.0 : r.uni(30, 330);
      kind = "Revolve";
      std::string s = "Revolve({[";
      for (auto& q : p[0]) s += "(" + f17(q.x) + "," + f17(q.y) + ")";
      how = s + "]}," + std::to_string(seg) + "," + f17(deg) + ")";
      return Manifold::Revolve(p, seg, deg);
    }
  }
}

// generic (random) rigid or affine transform; both operands get one, so no
// pair of faces/edges/vertices of different operands is related.
static Manifold Generic(vh::Rng& r, const Manifold& m, std::string& how) {
  vec3 rot(r.uni(-180, 180), r.uni(-180, 180), r.uni(-180, 180));
  Manifold out = m;
  if (r.chance(0.5)) {
    vec3 s = r.chance(0.5) ? vec3(r.uni(0.5, 1.8)) : vec3(r.uni(0.5, 1.8), r.uni(0.5, 1.8), r.uni(0.5, 1.8));
    if (r.chance(0.2)) s[r.range(0, 2)] *= -1;
    out = out.Scale(s);
    how += ".Scale(" + f17(s.x) + "," + f17(s.y) + "," + f17(s.z) + ")";
  }
  if (r.chance(0.25)) {
    mat3x4 t = la::identity;
    for (int cidx = 0; cidx < 3; cidx++)
      for (int k = 0; k < 3; k++)
        if (cidx != k) t[cidx][k] = r.uni(-0.3, 0.3);  // |det| >= 1 - small: stays invertible
    out = out.Transform(t);
    how += ".Transform(shear";
    for (int cidx = 0; cidx < 3; cidx++)
      for (int k = 0; k < 3; k++) how += "," + f17(t[cidx][k]);
    how += ")";
  }
  out = out.Rotate(rot.x, rot.y, rot.z);
  how += ".Rotate(" + f17(rot.x) + "," + f17(rot.y) + "," + f17(rot.z) + ")";
  return out;
}

static void Finish(Opnd& o) {
  o.mesh = o.m.GetMeshGL64();
  o.soup = vo::MakeSoup(o.mesh);
  o.area = vo::SoupArea(o.soup);
  o.vol = vo::SoupVolume(o.soup);
}

static Opnd MakeOperand(vh::Rng& r) {
  Opnd o;
  Manifold p = Primitive(r, o.how, o.kind);
  o.m = Generic(r, p, o.how);
  return o;
}

// translate `b` so that it overlaps `a` generically
static void PlaceOver(vh::Rng& r, const Manifold& a, Opnd& b) {
  Box ba = a.BoundingBox(), bb = b.m.BoundingBox();
  vec3 t = ba.Center() - bb.Center();
  vec3 span = (ba.Size() + bb.Size()) * 0.5;
  for (int k = 0; k < 3; k++) t[k] += span[k] * r.uni(-0.55, 0.55);
  b.m = b.m.Translate(t);
  b.how += ".Translate(" + f17(t.x) + "," + f17(t.y) + "," + f17(t.z) + ")";
}

// ------------------------------------------------------------------ samples
struct Sample {
  V3 p;
  int mult;        // 2,10,100 (x tau) for surface-offset samples, 0 for random
  char origin;     // 'A','B' operand surface, 'R' result surface, 'S' stratified random, 'P' plane
  std::vector<int> in;   // per operand: 1 inside, 0 outside, -9 undecided
  bool usable = true;    // false: inside the guard band of some operand / non-integral
};

static bool OutsideBox(const vo::Soup& s, V3 p, long double margin) {
  return p.x < s.lo.x - margin || p.y < s.lo.y - margin || p.z < s.lo.z - margin ||
         p.x > s.hi.x + margin || p.y > s.hi.y + margin || p.z > s.hi.z + margin;
}
static bool WithinBand(const vo::Soup& s, V3 p, long double tau) {
  if (s.empty() || OutsideBox(s, p, tau)) return false;
  return vo::DistToSurface(s, p) <= tau;
}
static int Inside(const vo::Soup& s, V3 p, bool& integral, int* wOut = nullptr) {
  if (s.empty() || OutsideBox(s, p, 0)) { integral = true; if (wOut) *wOut = 0; return 0; }
  vo::Cls cl = vo::Classify(s, p);
  integral = cl.integral;
  if (wOut) *wOut = cl.w;
  return cl.w > 0 ? 1 : 0;
}

// offsets +-{2,10,100} tau along the triangle normal at its centroid and at one of its vertices
static void SurfaceSamples(vh::Rng& r, const vo::Soup& s, long double tau, int nTris, char origin, std::vector<Sample>& out) {
  if (s.t.empty()) return;
  for (int n = 0; n < nTris; n++) {
    auto& tr = s.t[r.below(s.t.size())];
    V3 a = s.v[tr[0]], b = s.v[tr[1]], d = s.v[tr[2]];
    V3 nrm = vo::cross(b - a, d - a);
    long double len = vo::norm(nrm);
    if (!(len > 0)) continue;
    nrm = nrm * (1 / len);
    V3 base = r.chance(0.5) ? (a + b + d) * (1.0L / 3) : s.v[tr[r.below(3)]];
    // a point strictly inside an edge too, sometimes
    if (r.chance(0.2)) base = (a + b) * 0.5L;
    for (int m : {2, 10, 100})
      for (int sg : {-1, 1}) {
        Sample q;
        q.p = base + nrm * (tau * (long double)(m * sg));
        q.mult = m;
        q.origin = origin;
        out.push_back(q);
      }
  }
}

static void StrataSamples(vh::Rng& r, V3 lo, V3 hi, int n, std::vector<Sample>& out) {
  // n x n x n strata over the joint bounding box, one random point in each
  for (int i = 0; i < n; i++)
    for (int j = 0; j < n; j++)
      for (int k = 0; k < n; k++) {
        Sample q;
        q.p = {lo.x + (hi.x - lo.x) * (long double)((i + r.uni()) / n), lo.y + (hi.y - lo.y) * (long double)((j + r.uni()) / n),
               lo.z + (hi.z - lo.z) * (long double)((k + r.uni()) / n)};
        q.mult = 0;
        q.origin = 'S';
        out.push_back(q);
      }
}

// classify a sample against every operand; mark unusable inside the band
static void Resolve(vh::Ctx& c, Sample& q, const std::vector<const vo::Soup*>& ops, long double tau) {
  q.in.assign(ops.size(), 0);
  for (size_t i = 0; i < ops.size(); i++) {
    if (WithinBand(*ops[i], q.p, tau)) { q.usable = false; c.count("skipped_in_band"); return; }
  }
  for (size_t i = 0; i < ops.size(); i++) {
    bool integral;
    q.in[i] = Inside(*ops[i], q.p, integral);
    if (!integral) { q.usable = false; c.count("skipped_nonintegral_winding"); return; }
  }
}

static long double Tau(double tol, std::initializer_list<const vo::Soup*> ss) {
  long double scale = 0;
  for (auto s : ss) scale = std::max(scale, s->scale);
  if (!(tol >= 0) || !std::isfinite(tol)) tol = 0;
  return (long double)tol + 8 * 2.220446049250313e-16L * scale;
}

using Formula = std::function<bool(const std::vector<int>&)>;

// Check one result against the formula on the given (already resolved) shared
// samples plus fresh samples near the result's own surface. Returns true if
// no sample contradicted. `what` goes into the key.
struct Outcome {
  bool ok = true;
  long decided = 0;
};
static Outcome CheckResult(vh::Ctx& c, const std::string& what, const Manifold& R, const vo::Soup& rs,
                           std::vector<Sample>& shared, const std::vector<const vo::Soup*>& ops, long double tau,
                           const Formula& f, int ownTris, const std::function<std::string()>& witness, bool farOnly = false) {
  Outcome o;
  std::vector<Sample> own;
  SurfaceSamples(c.rng, rs, tau, ownTris, 'R', own);
  for (auto& q : own) Resolve(c, q, ops, tau);
  auto test = [&](const Sample& q) {
    if (!q.usable) return;
    bool integral;
    int w = 0;
    int got = Inside(rs, q.p, integral, &w);
    if (!integral) { c.count("skipped_nonintegral_winding"); return; }
    bool want = f(q.in);
    o.decided++;
    c.count("points_decided");
    if (w > 1 || w < 0) c.count("result_winding_outside_0_1");
    (void)got;
    // the result is a solid: winding exactly 1 where the formula says inside, exactly 0 elsewhere
    if (w != (want ? 1 : 0)) {
      if (o.ok) {
        long double dmin = 1e300L;
        for (auto s : ops)
          if (!s->empty()) dmin = std::min(dmin, vo::DistToSurface(*s, q.p));
        long double scale = rs.scale;
        for (auto s : ops) scale = std::max(scale, s->scale);
        std::string sev = dmin > 1e-6L * scale ? "far" : "near-tau";
        if (farOnly && sev != "far") {
          // operands coincident by ancestry are outside the quantifier's "general position";
          // only gross disagreements (farther than 1e-6 x scale from every input surface) are
          // reported there, the ones within a few tolerances of the shared surfaces are counted
          c.count("ancestor_disagreements_within_1e-6_scale_not_reported");
          return;
        }
        std::string key = "general:" + what + ":misclassified:" + (want ? (w == 0 ? "want-in-got-out" : "want-in-got-winding-not-1") : (w == 1 ? "want-out-got-in" : "want-out-got-winding-not-0")) + ":" + sev;
        std::string ins = "[";
        for (size_t i = 0; i < q.in.size(); i++) ins += (i ? "," : "") + std::to_string(q.in[i]);
        ins += "]";
        c.violation(key, vh::J().s("what", what).s("point", "(" + f17((double)q.p.x) + "," + f17((double)q.p.y) + "," + f17((double)q.p.z) + ")")
                             .s("origin", std::string(1, q.origin)).i("tau_multiple", q.mult).d("tau", (double)tau)
                             .d("dist_to_nearest_input_surface", (double)dmin).raw("inside_operands", ins)
                             .i("result_winding", w).bo("formula_says_inside", want).d("result_tolerance", R.GetTolerance())
                             .raw("witness", witness()).str());
      }
      o.ok = false;
    }
  };
  for (auto& q : shared) test(q);
  for (auto& q : own) test(q);
  return o;
}

static std::string OpndJson(const std::vector<Opnd*>& os) {
  std::string s = "[";
  for (size_t i = 0; i < os.size(); i++) s += (i ? ",\"" : "\"") + vh::jesc(os[i]->how) + "\"";
  return s + "]";
}

static void Case(vh::Ctx& c) {
  vh::Rng& r = c.rng;
  g_detail = std::max(1, (int)c.iparam("detail", 1));
  const int nShared = (int)c.iparam("sharedTris", 14), nOwn = (int)c.iparam("ownTris", 14), strata = (int)c.iparam("strata", 4);
  // ---- a generic pair
  Opnd A = MakeOperand(r), B = MakeOperand(r);
  PlaceOver(r, A.m, B);
  if (r.chance(0.2)) {  // whole scene at another scale / far from the origin
    double s = pow(10.0, r.uni(-3, 3));
    vec3 t(r.uni(-3, 3) * s, r.uni(-3, 3) * s, r.uni(-3, 3) * s);
    for (Opnd* o : {&A, &B}) {
      o->m = o->m.Scale(vec3(s)).Translate(t);
      o->how += ".Scale(" + f17(s) + ").Translate(" + f17(t.x) + "," + f17(t.y) + "," + f17(t.z) + ")";
    }
  }
  c.site("general:operands");
  Finish(A);
  Finish(B);
  if (A.m.Status() != Manifold::Error::NoError || B.m.Status() != Manifold::Error::NoError || A.soup.empty() || B.soup.empty()) {
    c.count("operand_construction_failed");
    return;
  }
  std::vector<Opnd*> AB = {&A, &B};
  auto witness = [&]() { return vh::J().raw("operands", OpndJson(AB)).str(); };

  // results of the three ops (and reversed order for the commutative ones)
  struct Res { Manifold m; vo::Soup s; long double vol; double tol; bool ok; std::string what; };
  auto mk = [&](const Manifold& m, const std::string& what) {
    Res x;
    x.m = m;
    c.site("general:" + what);
    x.s = vo::MakeSoup(m.GetMeshGL64());
    x.vol = vo::SoupVolume(x.s);
    x.tol = m.GetTolerance();
    x.ok = true;
    x.what = what;
    Manifold::Error st = m.Status();
    if (st != Manifold::Error::NoError) {
      c.violation("general:" + what + ":status-" + vo::ErrName(st), vh::J().raw("witness", witness()).str());
      x.ok = false;
    }
    return x;
  };
  std::vector<Res> res;
  res.push_back(mk(A.m + B.m, "Add"));
  res.push_back(mk(A.m - B.m, "Subtract"));
  res.push_back(mk(A.m ^ B.m, "Intersect"));
  const bool rev = r.chance(0.5);
  if (rev) {
    res.push_back(mk(B.m + A.m, "Add:reversed"));
    res.push_back(mk(B.m ^ A.m, "Intersect:reversed"));
  }
  c.site("general:Split");
  auto sp = A.m.Split(B.m);
  res.push_back(mk(sp.first, "Split.first"));
  res.push_back(mk(sp.second, "Split.second"));
  double tolMax = 0;
  for (auto& x : res) tolMax = std::max(tolMax, x.tol);
  // one tau for the shared samples: the largest result tolerance (band only grows => still sound)
  std::vector<const vo::Soup*> ops = {&A.soup, &B.soup};
  long double scaleAll = std::max(A.soup.scale, B.soup.scale);
  for (auto& x : res) scaleAll = std::max(scaleAll, x.s.scale);
  long double tau = (long double)tolMax + 8 * 2.220446049250313e-16L * scaleAll;
  std::vector<Sample> shared;
  SurfaceSamples(r, A.soup, tau, nShared, 'A', shared);
  SurfaceSamples(r, B.soup, tau, nShared, 'B', shared);
  V3 lo{std::min(A.soup.lo.x, B.soup.lo.x), std::min(A.soup.lo.y, B.soup.lo.y), std::min(A.soup.lo.z, B.soup.lo.z)};
  V3 hi{std::max(A.soup.hi.x, B.soup.hi.x), std::max(A.soup.hi.y, B.soup.hi.y), std::max(A.soup.hi.z, B.soup.hi.z)};
  V3 pad = (hi - lo) * 0.05L;
  StrataSamples(r, lo - pad, hi + pad, strata, shared);
  for (auto& q : shared) Resolve(c, q, ops, tau);
  c.heartbeat();

  auto formulaOf = [](const std::string& what) -> Formula {
    if (what.rfind("Add", 0) == 0) return [](const std::vector<int>& in) { return in[0] || in[1]; };
    if (what == "Subtract" || what == "Split.second") return [](const std::vector<int>& in) { return in[0] && !in[1]; };
    return [](const std::vector<int>& in) { return in[0] && in[1]; };
  };
  bool allOk = true;
  long decided = 0;
  for (auto& x : res) {
    if (!x.ok) { allOk = false; continue; }
    Outcome o = CheckResult(c, x.what, x.m, x.s, shared, ops, tau, formulaOf(x.what), nOwn, witness);
    x.ok = o.ok;
    allOk = allOk && o.ok;
    decided += o.decided;
    c.count("general_results_checked");
    c.heartbeat();
  }
  // ---- volume identities (bound implied by the statement)
  {
    long double bound = 2 * tau * (A.area + B.area) + 1e-12L * scaleAll * scaleAll * scaleAll;
    auto vol = [&](const char* w) { for (auto& x : res) if (x.what == w) return x.vol; return 0.0L; };
    auto volCheck = [&](const std::string& name, long double lhs, long double rhs, long double bnd) {
      c.count("volume_identities_checked");
      if (fabsl(lhs - rhs) > bnd)
        c.violation("general:volume:" + name, vh::J().d("lhs", (double)lhs).d("rhs", (double)rhs).d("bound", (double)bnd)
                                                   .d("volA", (double)A.vol).d("volB", (double)B.vol).raw("witness", witness()).str());
    };
    volCheck("inclusion-exclusion", vol("Add") + vol("Intersect"), A.vol + B.vol, 2 * bound);
    volCheck("difference", vol("Subtract") + vol("Intersect"), A.vol, 2 * bound);
    volCheck("split-first-equals-intersect", vol("Split.first"), vol("Intersect"), bound);
    volCheck("split-second-equals-subtract", vol("Split.second"), vol("Subtract"), bound);
    if (rev) {
      volCheck("commutative:Add", vol("Add"), vol("Add:reversed"), bound);
      volCheck("commutative:Intersect", vol("Intersect"), vol("Intersect:reversed"), bound);
    }
    for (auto& x : res) {
      double lv = x.m.Volume();
      if (std::fabs(lv - (double)x.vol) > 1e-9 * std::max(1.0, (double)fabsl(x.vol))) c.count("Volume()_differs_from_mesh_volume_rel_1e-9");
    }
  }
  if (decided > 0) c.sig("pair:" + A.kind + ":" + B.kind + (rev ? ":rev" : ""));

  // ---- SplitByPlane / TrimByPlane on A
  {
    vec3 n(r.uni(-1, 1), r.uni(-1, 1), r.uni(-1, 1));
    if (la::length(n) < 0.2) n = vec3(0.3, -0.5, 0.8);
    vec3 nh = la::normalize(n);
    Box bb = A.m.BoundingBox();
    double ext = 0.5 * la::length(bb.Size());
    double off = la::dot(bb.Center(), nh) + r.uni(-0.6, 0.6) * ext;
    std::string desc = "n=(" + f17(n.x) + "," + f17(n.y) + "," + f17(n.z) + "),off=" + f17(off);
    c.site("general:SplitByPlane");
    auto pr = A.m.SplitByPlane(n, off);
    c.site("general:TrimByPlane");
    Manifold tr = A.m.TrimByPlane(n, off);
    struct P { Manifold m; const char* what; bool positive; };
    P parts[3] = {{pr.first, "SplitByPlane.first", true}, {pr.second, "SplitByPlane.second", false}, {tr, "TrimByPlane", true}};
    V3 nn{(long double)n.x, (long double)n.y, (long double)n.z};
    nn = nn * (1 / vo::norm(nn));
    std::vector<const vo::Soup*> opsA = {&A.soup};
    auto pw = [&]() { return vh::J().raw("operands", OpndJson({&A})).s("plane", desc).str(); };
    for (auto& part : parts) {
      Res x = mk(part.m, part.what);
      if (!x.ok) continue;
      long double tauP = Tau(x.tol, {&A.soup, &x.s});
      // samples: near A's surface, near the result's surface, near the plane, strata
      std::vector<Sample> ss;
      SurfaceSamples(r, A.soup, tauP, nShared, 'A', ss);
      StrataSamples(r, A.soup.lo - pad, A.soup.hi + pad, 3, ss);
      for (int i = 0; i < 12; i++) {  // points just off the plane, inside A's box
        V3 q{A.soup.lo.x + (A.soup.hi.x - A.soup.lo.x) * (long double)r.uni(), A.soup.lo.y + (A.soup.hi.y - A.soup.lo.y) * (long double)r.uni(),
             A.soup.lo.z + (A.soup.hi.z - A.soup.lo.z) * (long double)r.uni()};
        long double d = vo::dot(q, nn) - (long double)off;
        V3 onPlane = q - nn * d;
        for (int m : {2, 10, 100})
          for (int sg : {-1, 1}) {
            Sample s;
            s.p = onPlane + nn * (tauP * (long double)(m * sg));
            s.mult = m;
            s.origin = 'P';
            ss.push_back(s);
          }
      }
      // the half space is a second "operand": in[1] = on the normal's side; band around the plane.
      // The plane the library cuts with is built from rotations of a cube in double; allow its
      // rounding (few ulp of the cutter's size, which the result tolerance already scales with).
      auto resolveP = [&](Sample& s) {
        Resolve(c, s, opsA, tauP);
        if (!s.usable) return;
        long double d = vo::dot(s.p, nn) - (long double)off;
        if (fabsl(d) <= tauP) { s.usable = false; c.count("skipped_in_band"); return; }
        s.in.push_back(d > 0 ? 1 : 0);
      };
      for (auto& s : ss) resolveP(s);
      // own samples are resolved inside CheckResult only against A; handle the plane through the formula:
      // a sample without in[1] (own sample) gets its side computed here via a wrapper
      const bool positive = part.positive;
      // CheckResult resolves its own samples with `ops` only, so give it a formula that
      // recomputes the side from scratch when in.size()==1 — not possible without the point;
      // instead generate the result-surface samples here and pass ownTris=0.
      std::vector<Sample> own;
      SurfaceSamples(r, x.s, tauP, nOwn, 'R', own);
      for (auto& s : own) { resolveP(s); ss.push_back(s); }
      Formula f = [positive](const std::vector<int>& in) { return in[0] && (positive ? in[1] : !in[1]); };
      Outcome o = CheckResult(c, part.what, x.m, x.s, ss, opsA, tauP, f, 0, pw);
      c.count("general_results_checked");
      if (o.decided > 0 && o.ok) c.sig(std::string("plane:") + part.what + ":" + A.kind);
    }
    c.heartbeat();
  }

  // ---- BatchBoolean of 3..8 generic operands
  if (r.chance(c.dparam("pBatch", 0.35))) {
    int k = r.range(3, 8);
    int op = r.range(0, 2);
    std::vector<Opnd> os(k);
    std::vector<Manifold> ms;
    std::vector<Opnd*> optrs;
    for (int i = 0; i < k; i++) {
      os[i] = MakeOperand(r);
      if (i > 0) PlaceOver(r, os[0].m, os[i]);
      Finish(os[i]);
      ms.push_back(os[i].m);
    }
    for (auto& o : os) optrs.push_back(&o);
    std::string what = std::string("Batch") + kOpName[op];
    auto bw = [&]() { return vh::J().raw("operands", OpndJson(optrs)).str(); };
    c.site("general:" + what);
    Manifold R = Manifold::BatchBoolean(ms, (OpType)op);
    Res x = mk(R, what);
    if (x.ok) {
      std::vector<const vo::Soup*> bops;
      long double sc = x.s.scale;
      for (auto& o : os) { bops.push_back(&o.soup); sc = std::max(sc, o.soup.scale); }
      long double tauB = (long double)x.tol + 8 * 2.220446049250313e-16L * sc;
      std::vector<Sample> ss;
      V3 blo = os[0].soup.lo, bhi = os[0].soup.hi;
      for (auto& o : os) {
        SurfaceSamples(r, o.soup, tauB, 4, 'A', ss);
        blo = {std::min(blo.x, o.soup.lo.x), std::min(blo.y, o.soup.lo.y), std::min(blo.z, o.soup.lo.z)};
        bhi = {std::max(bhi.x, o.soup.hi.x), std::max(bhi.y, o.soup.hi.y), std::max(bhi.z, o.soup.hi.z)};
      }
      StrataSamples(r, blo, bhi, 3, ss);
      for (auto& s : ss) Resolve(c, s, bops, tauB);
      Formula f = [op](const std::vector<int>& in) {
        if (op == 0) { for (int v : in) if (v) return true; return false; }
        if (op == 2) { for (int v : in) if (!v) return false; return true; }
        if (!in[0]) return false;
        for (size_t i = 1; i < in.size(); i++) if (in[i]) return false;
        return true;
      };
      Outcome o = CheckResult(c, what, x.m, x.s, ss, bops, tauB, f, nOwn, bw);
      c.count("general_results_checked");
      c.count("general_batch_results_checked");
      if (o.decided > 0 && o.ok) c.sig(what + ":" + std::to_string(k));
    }
    c.heartbeat();
  }

  // ---- chain: a result that passed everywhere becomes an operand
  if (r.chance(c.dparam("pChain", 0.5))) {
    int which = r.range(0, 2);
    Res& base = res[which];
    int depthMax = r.range(1, 2);
    Opnd cur;
    cur.m = base.m;
    cur.how = std::string("(") + A.how + ") " + kOpChar[which] + " (" + B.how + ")";
    cur.kind = std::string("Result") + kOpName[which];
    bool curOk = base.ok;
    if (base.s.empty()) { c.count("chain_not_started_on_empty_result"); depthMax = 0; }
    for (int d = 0; d < depthMax; d++) {
      if (!curOk) { c.count("precondition_lost"); break; }
      Finish(cur);
      // the other operand: a fresh generic one, or (coincident by ancestry) one of the
      // original operands again: its surface is partly shared with `cur`; the band
      // removes the shared surface, everything else must still follow the formula.
      const bool ancestor = r.chance(c.dparam("pAncestor", 0.3));
      Opnd C;
      if (ancestor) {
        C = r.chance(0.5) ? A : B;
      } else {
        C = MakeOperand(r);
        PlaceOver(r, cur.m, C);
        Finish(C);
      }
      int op = r.range(0, 2);
      bool curFirst = r.chance(0.6);
      Opnd& X = curFirst ? cur : C;
      Opnd& Y = curFirst ? C : cur;
      std::string what = std::string(ancestor ? "chained-with-ancestor:" : "chained:") + kOpName[op];
      if (ancestor) c.count("general_chained_with_ancestor");
      c.site("general:" + what);
      Manifold R = X.m.Boolean(Y.m, (OpType)op);
      std::vector<Opnd*> XY = {&X, &Y};
      auto cw = [&]() { return vh::J().raw("operands", OpndJson(XY)).str(); };
      Res x = mk(R, what);
      if (!x.ok) { curOk = false; continue; }
      std::vector<const vo::Soup*> cops = {&X.soup, &Y.soup};
      long double tauC = Tau(x.tol, {&X.soup, &Y.soup, &x.s});
      std::vector<Sample> ss;
      SurfaceSamples(r, X.soup, tauC, nShared / 2, 'A', ss);
      SurfaceSamples(r, Y.soup, tauC, nShared / 2, 'B', ss);
      V3 clo{std::min(X.soup.lo.x, Y.soup.lo.x), std::min(X.soup.lo.y, Y.soup.lo.y), std::min(X.soup.lo.z, Y.soup.lo.z)};
      V3 chi{std::max(X.soup.hi.x, Y.soup.hi.x), std::max(X.soup.hi.y, Y.soup.hi.y), std::max(X.soup.hi.z, Y.soup.hi.z)};
      StrataSamples(r, clo, chi, 3, ss);
      for (auto& s : ss) Resolve(c, s, cops, tauC);
      Formula f = op == 0 ? Formula([](const std::vector<int>& in) { return in[0] || in[1]; })
                 : op == 1 ? Formula([](const std::vector<int>& in) { return in[0] && !in[1]; })
                           : Formula([](const std::vector<int>& in) { return in[0] && in[1]; });
      Outcome o = CheckResult(c, what, x.m, x.s, ss, cops, tauC, f, nOwn, cw, ancestor);
      c.count("general_results_checked");
      c.count("general_chained_results_checked");
      if (o.decided > 0 && o.ok) c.sig(std::string("chain:") + cur.kind + ":" + C.kind + ":" + kOpName[op]);
      // next link
      Opnd nxt;
      nxt.m = R;
      nxt.how = "(" + X.how + ") " + kOpChar[op] + " (" + Y.how + ")";
      nxt.kind = std::string("Result") + kOpName[op];
      curOk = o.ok;
      if (x.s.empty()) { c.count("chain_ended_on_empty_result"); break; }
      cur = std::move(nxt);
      c.heartbeat();
    }
  }
  if (c.idx % 53 == 0)
    c.sample(vh::J().s("stage", "general").i("idx", c.idx).s("A", A.how.substr(0, 300)).s("B", B.how.substr(0, 300))
                 .i("trisA", (long long)A.soup.t.size()).i("trisB", (long long)B.soup.t.size()).d("tau", (double)tau)
                 .i("points_decided_pair_ops", decided).str());
  c.maxi("max_operand_tris", (long long)std::max(A.soup.t.size(), B.soup.t.size()));
}

}  // namespace gp

void vh_case(vh::Ctx& c) {
  try {
    if (c.stage == "lattice-pairs") lat::PairCase(c);
    else if (c.stage == "lattice-progs") lat::ProgramCase(c);
    else if (c.stage == "lattice-touch") lat::TouchCase(c);
    else if (c.stage.rfind("general", 0) == 0) gp::Case(c);  // "general", "general-par"
    else c.inconclusive("unknown stage " + c.stage);
  } catch (const std::exception& e) {
    c.violation(std::string("throw:") + e.what(), vh::J().s("what", e.what()).s("stage", c.stage).str());
  }
}
