// C10 — Triangulate/TriangulateIdx return a correct triangulation of
// epsilon-valid polygons (DESIGN.md §4 C10).
//
//   mode=valid    polygon sets that are epsilon-valid BY CONSTRUCTION: exactly
//                 simple, non-overlapping contours (star / x-monotone / spiral /
//                 comb / convex outers under a random orientation-preserving
//                 affine map; holes and islands placed inside inscribed discs of
//                 their parent contour, nesting depth <= 4; several faces in
//                 disjoint discs), then perturbed only in ways that stay within
//                 epsilon of that exactly valid set: inserted collinear
//                 vertices (exact, or moved < epsilon/2 off the edge), duplicate
//                 vertices within epsilon/4. Needle teeth / sharp tips are part
//                 of the exactly valid geometry. Both allowConvex settings and
//                 both public entry points are run and each result must satisfy
//                 the whole oracle.
//   mode=reuse    a sequence of unrelated polygon sets through ONE
//                 PolygonTriangulator vs fresh triangulators: bit-identical
//                 halfedges, contourEnd and epsilon.
//   mode=garbage  arbitrary finite input: returns, indices are input indices,
//                 no sanitizer report; exceptions are classified.
//   mode=rings    enumerated degenerate ring sizes (0, 1, 2 points).
//
// The oracle re-implements the library's CCW() (utils.h) and shares no code
// with the triangulator.
#include <cxxabi.h>

#include <algorithm>
#include <array>
#include <cfloat>
#include <cstring>
#include <functional>
#include <typeinfo>
#include <unordered_map>

#include "manifold/polygon.h"
#include "polygon_internal.h"

#include "common/vh.h"

using namespace manifold;

static const double kTwoPiH = 6.283185307179586476925;

// ------------------------------------------------------------------ utilities
static std::string jn(double v) {
  if (!std::isfinite(v)) return std::isnan(v) ? "\"nan\"" : (v > 0 ? "\"inf\"" : "\"-inf\"");
  char t[40];
  snprintf(t, sizeof t, "%.17g", v);
  return t;
}
static std::string jpolys(const Polygons& p, size_t cap = 8000) {
  std::string s = "[";
  size_t n = 0;
  for (size_t i = 0; i < p.size(); i++) {
    if (i) s += ",";
    s += "[";
    for (size_t j = 0; j < p[i].size(); j++) {
      if (n++ > cap) { s += (j ? "," : ""); s += "\"...\""; break; }
      if (j) s += ",";
      s += "[" + jn(p[i][j].x) + "," + jn(p[i][j].y) + "]";
    }
    s += "]";
  }
  return s + "]";
}
static std::string jtris(const std::vector<ivec3>& t, size_t cap = 200) {
  std::string s = "[";
  for (size_t i = 0; i < t.size() && i < cap; i++) {
    if (i) s += ",";
    s += "[" + std::to_string(t[i][0]) + "," + std::to_string(t[i][1]) + "," + std::to_string(t[i][2]) + "]";
  }
  if (t.size() > cap) s += ",\"...(" + std::to_string(t.size()) + ")\"";
  return s + "]";
}
static std::string demangle(const char* n) {
  int st = 0;
  char* d = abi::__cxa_demangle(n, nullptr, nullptr, &st);
  std::string s = (st == 0 && d) ? d : n;
  free(d);
  return s;
}

// VERIF_DUMP=<file>: on a violation in the valid stage, also write the full
// input as text (epsilon, ring count, then per ring: size and x y lines)
static void dumpText(const Polygons& polys, double eps) {
  const char* path = getenv("VERIF_DUMP");
  if (!path) return;
  FILE* f = fopen(path, "w");
  if (!f) return;
  fprintf(f, "%.17g %zu\n", eps, polys.size());
  for (auto& sp : polys) {
    fprintf(f, "%zu\n", sp.size());
    for (auto& v : sp) fprintf(f, "%.17g %.17g\n", v.x, v.y);
  }
  fclose(f);
}

// ------------------------------------------------------- constructed polygons
struct Contour {
  std::vector<vec2> p;  // counter-clockwise, exactly simple
  vec2 interior;        // a point strictly inside
  const char* kind;
};

static double distPointSeg(vec2 q, vec2 a, vec2 b) {
  vec2 ab = b - a;
  double l2 = la::dot(ab, ab);
  double t = l2 > 0 ? la::dot(q - a, ab) / l2 : 0;
  t = std::max(0.0, std::min(1.0, t));
  return la::length(q - (a + t * ab));
}
static double minEdgeDist(const std::vector<vec2>& p, vec2 q) {
  double d = 1e300;
  for (size_t i = 0; i < p.size(); i++) d = std::min(d, distPointSeg(q, p[i], p[(i + 1) % p.size()]));
  return d;
}
static long double area2Of(const std::vector<vec2>& p) {
  long double a = 0;
  const vec2 o = p[0];
  for (size_t i = 0; i < p.size(); i++) {
    vec2 u = p[i] - o, v = p[(i + 1) % p.size()] - o;
    a += (long double)u.x * v.y - (long double)u.y * v.x;
  }
  return a;
}

// Canonical shapes, each roughly of unit size, CCW, exactly simple by the
// argument in the comment of each generator.
static Contour shapeStar(vh::Rng& r, int n) {
  // vertices at strictly increasing angles with gaps < pi, positive radii:
  // star-shaped about the origin => simple, origin strictly inside.
  Contour c;
  c.kind = "star";
  double lo = r.chance(0.3) ? 0.05 : 0.35;
  for (int i = 0; i < n; i++) {
    double a = kTwoPiH * (i + r.uni(-0.2, 0.2)) / n;
    double rad = (i % 2 && r.chance(0.7)) ? r.uni(lo, 0.6) : r.uni(0.6, 1.0);
    c.p.push_back(vec2(rad * std::cos(a), rad * std::sin(a)));
  }
  c.interior = vec2(0.0);
  return c;
}
static Contour shapeConvex(vh::Rng& r, int n) {
  Contour c;
  c.kind = "convex";
  // strictly increasing angles with every gap < pi (jitter j: 2 pi (1+2j)/n < pi)
  // => strictly convex and the origin strictly inside
  double bx = r.uni(0.3, 1.0), by = r.uni(0.3, 1.0);
  const double j = n <= 4 ? 0.2 : 0.3;
  for (int i = 0; i < n; i++) {
    double a = kTwoPiH * (i + r.uni(-j, j)) / n;
    c.p.push_back(vec2(bx * std::cos(a), by * std::sin(a)));
  }
  c.interior = vec2(0.0);
  return c;
}
static Contour shapeMonotone(vh::Rng& r, int n) {
  // left tip (-1,0), lower chain with y<0 and strictly increasing x, right tip
  // (1,0), upper chain with y>0 and strictly decreasing x. Each chain is a
  // graph over x on its own side of y=0 => simple; (0,0) strictly inside.
  Contour c;
  c.kind = "monotone";
  int nl = std::max(1, n / 2 - 1), nu = std::max(1, n - 2 - nl);
  auto xs = [&](int k) {
    std::vector<double> x(k);
    for (int i = 0; i < k; i++) x[i] = -1 + 2.0 * (i + 1 + r.uni(-0.3, 0.3)) / (k + 1);
    return x;
  };
  double amp = r.uni(0.2, 1.0), gap = r.chance(0.3) ? r.uni(0.002, 0.05) : r.uni(0.05, 0.3);
  c.p.push_back(vec2(-1, 0));
  for (double x : xs(nl)) c.p.push_back(vec2(x, -gap - amp * r.uni()));
  c.p.push_back(vec2(1, 0));
  std::vector<double> xu = xs(nu);
  for (int i = nu - 1; i >= 0; i--) c.p.push_back(vec2(xu[i], gap + amp * r.uni()));
  c.interior = vec2(0.0);
  return c;
}
static Contour shapeSpiral(vh::Rng& r, int n) {
  // band of width w around the Archimedean centre line rad(t) = a + b t.
  // A chord between polar points (r1,t1),(r2,t2), D=t2-t1 small, stays within
  // radii [min(r1,r2) cos(D/2), max(r1,r2)]. With m = min(w, 2 pi b - w) the
  // step D is chosen so that 2 b D + rmax D^2 / 8 <= m / 4: the outer
  // polyline of one turn stays below the inner polyline of the next turn and
  // above its own inner polyline => simple.
  Contour c;
  c.kind = "spiral";
  double turns = r.uni(0.6, 3.2);
  double T = kTwoPiH * turns;
  double b = 1.0 / (kTwoPiH * (turns + 1.5));
  double a = kTwoPiH * b * r.uni(0.6, 1.2);
  double w = kTwoPiH * b * r.uni(0.25, 0.6);
  double rmax = a + b * T + w;
  double m = std::min(w, kTwoPiH * b - w);
  int steps = std::max(4, n / 2);
  for (;; steps = steps * 3 / 2 + 1) {
    double D = T / steps;
    if (2 * b * D + rmax * D * D / 8 <= m / 4 && D < 0.5) break;
  }
  for (int i = 0; i <= steps; i++) {
    double t = T * i / steps, rad = a + b * t + w / 2;
    c.p.push_back(vec2(rad * std::cos(t), rad * std::sin(t)));
  }
  for (int i = steps; i >= 0; i--) {
    double t = T * i / steps, rad = a + b * t - w / 2;
    c.p.push_back(vec2(rad * std::cos(t), rad * std::sin(t)));
  }
  // interior: centroid of the (convex, nearly trapezoidal) band cell between
  // samples i and i+1, i.e. the midpoint of the two centre-line samples.
  {
    int i = steps / 2;
    double t1 = T * i / steps, t2 = T * (i + 1) / steps;
    vec2 c1 = (a + b * t1) * vec2(std::cos(t1), std::sin(t1)), c2 = (a + b * t2) * vec2(std::cos(t2), std::sin(t2));
    c.interior = 0.5 * (c1 + c2);
  }
  return c;
}
static Contour shapeComb(vh::Rng& r, int n, double needleRel) {
  // base [0,W]x[0,h0] with k disjoint rectangular teeth strictly inside (0,W)
  // on its top side; walked bottom (left->right), right side up, top side
  // right->left visiting the teeth. Rectilinear and x-ordered => simple.
  Contour c;
  c.kind = needleRel > 0 ? "comb-needles" : "comb";
  int k = std::max(1, (n - 4) / 4);
  double W = 2.0, h0 = r.uni(0.1, 0.5);
  double slot = W / k;
  c.p.push_back(vec2(0, 0));
  c.p.push_back(vec2(W, 0));
  c.p.push_back(vec2(W, h0));
  for (int i = k - 1; i >= 0; i--) {
    double tw = slot * r.uni(0.15, 0.7);
    if (needleRel > 0 && r.chance(0.6)) tw = needleRel * std::pow(10.0, r.uni(0, 2));
    double x0 = slot * i + (slot - tw) * r.uni(0.1, 0.9);
    double th = r.uni(0.2, 1.0);
    c.p.push_back(vec2(x0 + tw, h0));
    c.p.push_back(vec2(x0 + tw, h0 + th));
    c.p.push_back(vec2(x0, h0 + th));
    c.p.push_back(vec2(x0, h0));
  }
  c.p.push_back(vec2(0, h0));
  c.interior = vec2(W / 2, h0 / 2);
  return c;
}

static Contour makeShape(vh::Rng& r, int kind, int n) {
  Contour c;
  switch (kind) {
    case 0: c = shapeStar(r, std::max(3, n)); break;
    case 1: c = shapeMonotone(r, std::max(4, n)); break;
    case 2: c = shapeSpiral(r, std::max(8, n)); break;
    case 3: c = shapeComb(r, std::max(8, n), 0); break;
    case 4: c = shapeComb(r, std::max(8, n), std::pow(10.0, r.uni(-12, -9))); break;
    default: c = shapeConvex(r, std::max(3, n)); break;
  }
  // orientation preserving affine map (det = sx*sy > 0) keeps it simple and CCW
  double phi = r.uni(0, kTwoPiH), sx = r.uni(0.4, 2.5), sy = r.uni(0.4, 2.5), k = r.chance(0.5) ? 0.0 : r.uni(-1, 1);
  if (r.chance(0.25)) { phi = (kTwoPiH / 4) * r.range(0, 3); k = 0; }  // keep axis-aligned edges sometimes
  double cs = std::cos(phi), sn = std::sin(phi);
  if (std::abs(cs) < 1e-15) cs = 0;
  if (std::abs(sn) < 1e-15) sn = 0;
  auto map = [&](vec2 v) {
    vec2 u(sx * v.x + k * v.y, sy * v.y);
    return vec2(cs * u.x - sn * u.y, sn * u.x + cs * u.y);
  };
  for (auto& v : c.p) v = map(v);
  c.interior = map(c.interior);
  return c;
}


// ---------------------------------------------------- exact validity re-check
// The construction arguments above are re-checked on every generated set
// with exact arithmetic (floating-point expansions): no two non-adjacent edges
// of any contours meet, adjacent edges do not fold back, every contour's
// nesting depth parity matches its orientation. A failure is a HARNESS bug: the
// case is dropped and the run is marked inconclusive.
static inline void twoSum(double a, double b, double& s, double& e) {
  s = a + b;
  double bb = s - a;
  e = (a - (s - bb)) + (b - bb);
}
static inline void twoProd(double a, double b, double& p, double& e) {
  p = a * b;
  e = std::fma(a, b, -p);
}
// sign of the exact value of sum(t[0..n))
static int signOfSum(const double* t, int n) {
  double h[32];
  int m = 0;
  for (int i = 0; i < n; i++) {
    double Q = t[i];
    int k = 0;
    for (int jx = 0; jx < m; jx++) {
      double S, e;
      twoSum(Q, h[jx], S, e);
      if (e != 0) h[k++] = e;
      Q = S;
    }
    if (Q != 0) h[k++] = Q;
    m = k;
  }
  if (m == 0) return 0;
  return h[m - 1] > 0 ? 1 : -1;
}
// exact orientation of (a,b,c): sign of ax*by - ax*cy - ay*bx + ay*cx + bx*cy - by*cx
static int orientExact(vec2 a, vec2 b, vec2 c) {
  double det = (b.x - a.x) * (c.y - a.y) - (b.y - a.y) * (c.x - a.x);
  double mag = (std::abs(b.x - a.x) + std::abs(a.x) * 2e-16) * (std::abs(c.y - a.y) + std::abs(a.y) * 2e-16) +
               (std::abs(b.y - a.y) + std::abs(a.y) * 2e-16) * (std::abs(c.x - a.x) + std::abs(a.x) * 2e-16);
  if (std::abs(det) > 1e-14 * mag + 8e-16 * (std::abs(a.x) + std::abs(b.x) + std::abs(c.x)) * (std::abs(a.y) + std::abs(b.y) + std::abs(c.y)))
    return det > 0 ? 1 : -1;
  double t[12];
  twoProd(a.x, b.y, t[0], t[1]);
  twoProd(-a.x, c.y, t[2], t[3]);
  twoProd(-a.y, b.x, t[4], t[5]);
  twoProd(a.y, c.x, t[6], t[7]);
  twoProd(b.x, c.y, t[8], t[9]);
  twoProd(-b.y, c.x, t[10], t[11]);
  return signOfSum(t, 12);
}
static bool inBox(vec2 a, vec2 b, vec2 c) {
  return std::min(a.x, b.x) <= c.x && c.x <= std::max(a.x, b.x) && std::min(a.y, b.y) <= c.y && c.y <= std::max(a.y, b.y);
}
// closed segments ab and cd have a common point
static bool segsMeet(vec2 a, vec2 b, vec2 c, vec2 d) {
  if (std::max(a.x, b.x) < std::min(c.x, d.x) || std::max(c.x, d.x) < std::min(a.x, b.x) || std::max(a.y, b.y) < std::min(c.y, d.y) ||
      std::max(c.y, d.y) < std::min(a.y, b.y))
    return false;
  int o1 = orientExact(a, b, c), o2 = orientExact(a, b, d), o3 = orientExact(c, d, a), o4 = orientExact(c, d, b);
  if (o1 != o2 && o3 != o4) return true;
  if (o1 == 0 && inBox(a, b, c)) return true;
  if (o2 == 0 && inBox(a, b, d)) return true;
  if (o3 == 0 && inBox(c, d, a)) return true;
  if (o4 == 0 && inBox(c, d, b)) return true;
  return false;
}
// exact point-in-polygon (q not on the boundary): crossing number with a ray to +x
static bool insideExact(vec2 q, const std::vector<vec2>& p) {
  bool in = false;
  for (size_t i = 0; i < p.size(); i++) {
    vec2 a = p[i], b = p[(i + 1) % p.size()];
    if ((a.y > q.y) == (b.y > q.y)) continue;
    // edge crosses the horizontal line through q: is the crossing right of q?
    int o = a.y < b.y ? orientExact(a, b, q) : orientExact(b, a, q);
    if (o > 0) in = !in;  // q strictly left of the upward edge
  }
  return in;
}
struct RingRef {
  const std::vector<vec2>* p;
  bool hole;
};
static std::string validateExact(const std::vector<RingRef>& rings) {
  struct E { vec2 a, b; int ring, i, n; };
  std::vector<E> es;
  for (size_t r = 0; r < rings.size(); r++) {
    const auto& p = *rings[r].p;
    if (p.size() < 3) return "ring with < 3 vertices";
    for (size_t i = 0; i < p.size(); i++) es.push_back({p[i], p[(i + 1) % p.size()], (int)r, (int)i, (int)p.size()});
  }
  // sweep over x to keep the pair count down
  std::vector<int> ord(es.size());
  for (size_t i = 0; i < ord.size(); i++) ord[i] = (int)i;
  std::sort(ord.begin(), ord.end(), [&](int x, int y) { return std::min(es[x].a.x, es[x].b.x) < std::min(es[y].a.x, es[y].b.x); });
  for (size_t x = 0; x < ord.size(); x++) {
    const E& e = es[ord[x]];
    double hi = std::max(e.a.x, e.b.x);
    for (size_t y = x + 1; y < ord.size(); y++) {
      const E& f = es[ord[y]];
      if (std::min(f.a.x, f.b.x) > hi) break;
      if (e.ring == f.ring && ((e.i + 1) % e.n == f.i || (f.i + 1) % f.n == e.i)) {
        // adjacent: must not be a zero-length edge or fold back onto each other
        const E& first = (e.i + 1) % e.n == f.i ? e : f;
        const E& second = (e.i + 1) % e.n == f.i ? f : e;
        if (first.a.x == first.b.x && first.a.y == first.b.y) return "zero-length edge";
        if (orientExact(first.a, first.b, second.b) == 0 && la::dot(first.a - first.b, second.b - second.a) > 0) return "adjacent edges fold back";
        continue;
      }
      if (segsMeet(e.a, e.b, f.a, f.b)) return "edges of ring " + std::to_string(e.ring) + " and ring " + std::to_string(f.ring) + " meet";
    }
  }
  for (size_t r = 0; r < rings.size(); r++) {
    int depth = 0;
    for (size_t q = 0; q < rings.size(); q++)
      if (q != r && insideExact((*rings[r].p)[0], *rings[q].p)) depth++;
    bool ccw = area2Of(*rings[r].p) > 0;
    if (ccw == rings[r].hole) return "ring " + std::to_string(r) + " has the wrong orientation for its role";
    if ((depth % 2 == 1) != rings[r].hole) return "ring " + std::to_string(r) + " at nesting depth " + std::to_string(depth) + " has the wrong role";
  }
  return "";
}

struct Ring {
  std::vector<vec2> p;
  bool hole;
  int depth;
  const char* kind;
};
struct Built {
  std::vector<Ring> rings;
  double minClear = 1e300;  // lower bound on the distance between different contours
  int maxDepth = 0;
};

// Places `shape` (kind chosen here) so that it lies inside the disc
// (ctr, rad), then recurses into its own inscribed disc.
static void place(vh::Rng& r, Built& B, vec2 ctr, double rad, int depth, bool hole, int budget, int maxDepth) {
  int kind = r.range(0, 5);
  if (hole && r.chance(0.3)) kind = 5;
  // needle teeth (width down to 1e-12 of the contour size) only on top-level
  // contours, where coordinate rounding (1e-16 * maxAbs, maxAbs <= ~15 sizes)
  // stays two orders of magnitude below the needle width
  if (kind == 4 && depth > 0) kind = 3;
  int n = r.chance(0.7) ? r.range(3, 16) : r.range(16, std::max(17, budget));
  Contour c = makeShape(r, kind, n);
  double br = 0;
  for (auto& v : c.p) br = std::max(br, la::length(v - c.interior));
  // also keep every vertex inside the disc about ctr: place the interior point at ctr
  double s = rad / br;
  Ring g;
  g.hole = hole;
  g.depth = depth;
  g.kind = c.kind;
  for (auto& v : c.p) g.p.push_back(ctr + s * (v - c.interior));
  double d = minEdgeDist(g.p, ctr);  // true clearance of ctr inside this contour
  if (hole) std::reverse(g.p.begin(), g.p.end());
  B.rings.push_back(g);
  B.maxDepth = std::max(B.maxDepth, depth);
  if (depth >= maxDepth) return;
  if (!r.chance(depth == 0 ? 0.6 : 0.5)) return;
  double rho = 0.9 * d;  // children stay inside the disc (ctr, rho), itself inside the contour
  int k = r.range(1, depth == 0 ? 4 : 2);
  B.minClear = std::min(B.minClear, 0.1 * d);
  for (int j = 0; j < k; j++) {
    vec2 cc = ctr;
    double cr = 0.8 * rho;
    if (k > 1) {
      double a = kTwoPiH * j / k + 0.3;
      cc = ctr + (rho / 2) * vec2(std::cos(a), std::sin(a));
      cr = 0.8 * std::min(rho / 2, (rho / 2) * std::sin(kTwoPiH / 2 / k));
      B.minClear = std::min(B.minClear, 0.2 * cr);
    }
    place(r, B, cc, cr * r.uni(0.5, 1.0), depth + 1, !hole, budget, maxDepth);
  }
}

struct PolySet {
  Polygons polys;
  std::vector<int> idx;  // custom index of the flattened vertex (for TriangulateIdx)
  int V = 0, h = 0, o = 0;
  double epsIn = -1, epsEff = 0, maxAbs = 0;
  bool convexLooking = false;  // single strictly convex outer only (harness's own test)
  std::string desc;
  int maxDepth = 0;
  bool degen = false;
  std::string regime = "general";  // general | eps-zero | thin-feature
  double lfs = 0;                    // smallest distance between contour edges that share no vertex
};


// Rectilinear faces on an integer grid: an outer rectangle, disjoint rectangular
// holes at integer positions with gaps >= 1, optionally an island one cell
// inside a hole and a hole one cell inside that island, plus extra vertices at
// integer points along edges. Many vertices share x or y coordinates exactly
// (the library's epsilon bands around equal coordinates are exercised); the
// set is exactly valid because all gaps are >= 1 grid unit.
static void gridFace(vh::Rng& r, Built& B, vec2 origin, double unit) {
  int W = r.range(4, 16), H = r.range(4, 12);
  struct R4 { int x0, y0, x1, y1; };
  auto ring = [&](R4 q, bool hole, int depth) {
    Ring g;
    g.hole = hole;
    g.depth = depth;
    g.kind = "grid";
    std::vector<vec2> c4 = {vec2(q.x0, q.y0), vec2(q.x1, q.y0), vec2(q.x1, q.y1), vec2(q.x0, q.y1)};
    bool dense = r.chance(0.5);
    for (int i = 0; i < 4; i++) {
      vec2 a = c4[i], b = c4[(i + 1) % 4];
      g.p.push_back(a);
      int len = (int)std::lround(std::abs(b.x - a.x) + std::abs(b.y - a.y));
      vec2 d = (b - a) / (double)len;
      for (int k = 1; k < len; k++)
        if (dense && r.chance(0.5)) g.p.push_back(a + d * (double)k);  // exact lattice point on the edge
    }
    if (hole) std::reverse(g.p.begin(), g.p.end());
    for (auto& v : g.p) v = origin + unit * v;
    B.rings.push_back(g);
    B.maxDepth = std::max(B.maxDepth, depth);
  };
  ring({0, 0, W, H}, false, 0);
  std::vector<R4> holes;
  int tries = r.range(0, 12);
  for (int t = 0; t < tries; t++) {
    int x0 = r.range(1, W - 2), y0 = r.range(1, H - 2);
    int x1 = r.range(x0 + 1, std::min(W - 1, x0 + 6)), y1 = r.range(y0 + 1, std::min(H - 1, y0 + 6));
    bool ok = true;
    for (auto& q : holes)
      if (!(x1 + 1 <= q.x0 || q.x1 + 1 <= x0 || y1 + 1 <= q.y0 || q.y1 + 1 <= y0)) ok = false;
    if (!ok) continue;
    holes.push_back({x0, y0, x1, y1});
    ring({x0, y0, x1, y1}, true, 1);
    R4 q = {x0, y0, x1, y1};
    for (int depth = 2; depth <= 4; depth++) {
      if (q.x1 - q.x0 < 3 || q.y1 - q.y0 < 3 || !r.chance(0.5)) break;
      q = {q.x0 + 1, q.y0 + 1, q.x1 - 1, q.y1 - 1};
      ring(q, depth % 2 == 1, depth);
    }
  }
  B.minClear = std::min(B.minClear, unit);
}

static double segSegDistance(vec2 a, vec2 b, vec2 c, vec2 d) {
  return std::min({distPointSeg(a, c, d), distPointSeg(b, c, d), distPointSeg(c, a, b), distPointSeg(d, a, b)});
}
// smallest distance between two contour edges that share no vertex (the set is
// already known to be exactly valid, so the segments do not cross)
static double localFeatureSize(const std::vector<Ring>& rings) {
  struct E { vec2 a, b; int ring, i, n; double lox, hix; };
  std::vector<E> es;
  for (size_t r = 0; r < rings.size(); r++) {
    const auto& p = rings[r].p;
    for (size_t i = 0; i < p.size(); i++) {
      vec2 a = p[i], b = p[(i + 1) % p.size()];
      es.push_back({a, b, (int)r, (int)i, (int)p.size(), std::min(a.x, b.x), std::max(a.x, b.x)});
    }
  }
  std::sort(es.begin(), es.end(), [](const E& x, const E& y) { return x.lox < y.lox; });
  double best = 1e300;
  for (size_t x = 0; x < es.size(); x++)
    for (size_t y = x + 1; y < es.size(); y++) {
      if (es[y].lox - es[x].hix >= best) break;  // sorted by lox: no later edge can be closer in x
      const E &p = es[x], &q = es[y];
      if (p.ring == q.ring && (p.i == q.i || (p.i + 1) % p.n == q.i || (q.i + 1) % q.n == p.i)) continue;
      best = std::min(best, segSegDistance(p.a, p.b, q.a, q.b));
    }
  return best;
}

// Builds an epsilon-valid set. Returns false (case skipped, never decides) if
// the requested epsilon cannot be guaranteed to be far below the feature size.
static bool buildValid(vh::Rng& r, long maxVerts, PolySet& P, std::string& skipWhy) {
  Built B;
  int faces = r.chance(0.75) ? 1 : r.range(2, 3);
  int maxDepth = r.chance(0.5) ? 0 : r.range(1, 4);
  bool wantConvex = r.chance(0.12);
  bool wantGrid = !wantConvex && r.chance(0.12);
  for (int f = 0; f < faces; f++) {
    vec2 ctr(3.0 * f, r.uni(-0.3, 0.3));  // discs of radius 1 centred 3 apart: disjoint
    if (wantGrid) {
      // a W x H grid face with unit 1/16 fits the box [3f-1, 3f] x [-1, 0], inside the disc of radius 1.5 about (3f, 0)... the
      // faces only need to be mutually disjoint: boxes [3f-1, 3f+0] x [-1,-0.25] for different f are 2 apart in x
      gridFace(r, B, vec2(3.0 * f - 1.0, -1.0), 1.0 / 16);
    } else if (wantConvex) {
      Contour c = makeShape(r, 5, r.range(3, 40));
      double br = 0;
      for (auto& v : c.p) br = std::max(br, la::length(v - c.interior));
      Ring g;
      g.hole = false; g.depth = 0; g.kind = c.kind;
      for (auto& v : c.p) g.p.push_back(ctr + (1.0 / br) * (v - c.interior));
      B.rings.push_back(g);
    } else
      place(r, B, ctr, 1.0, 0, false, (int)std::min<long>(maxVerts, r.chance(0.1) ? maxVerts : 200), maxDepth);
  }
  if (faces > 1) B.minClear = std::min(B.minClear, 1.0);
  // scale and translate
  double scale = std::pow(10.0, r.uni(-9, 9));
  if (r.chance(0.2)) scale = 1.0;
  vec2 off = r.chance(0.5) ? vec2(0.0) : scale * vec2(r.uni(-4, 4), r.uni(-4, 4));
  for (auto& g : B.rings)
    for (auto& v : g.p) v = scale * v + off;
  B.minClear *= scale;
  double maxAbs = 0, minEdge = 1e300, minWidth = 1e300;
  for (auto& g : B.rings) {
    vec2 lo(1e300), hi(-1e300);
    for (size_t i = 0; i < g.p.size(); i++) {
      maxAbs = std::max({maxAbs, std::abs(g.p[i].x), std::abs(g.p[i].y)});
      minEdge = std::min(minEdge, la::length(g.p[(i + 1) % g.p.size()] - g.p[i]));
      lo = la::min(lo, g.p[i]);
      hi = la::max(hi, g.p[i]);
    }
    double side = std::max(hi.x - lo.x, hi.y - lo.y);
    minWidth = std::min(minWidth, (double)std::abs(area2Of(g.p)) / 2 / side);
  }
  // epsilon: far below contour clearance, contour mean width and edge length,
  // so that which contours are holes/outers is not in doubt.
  double epsMax = 0.01 * std::min(B.minClear, minWidth);
  (void)minEdge;
  double epsDefault = 1e-12 * maxAbs;
  double epsIn;
  int pick = r.range(0, 9);
  if (pick <= 4) epsIn = -1;
  else if (pick == 5) epsIn = epsDefault;
  else if (pick == 6) epsIn = 0;
  else if (pick == 7) epsIn = std::min(epsMax, 1e-3 * scale) * r.uni(0.5, 1.0);
  else epsIn = epsDefault * std::pow(epsMax / epsDefault, r.uni());
  double epsEff = epsIn < 0 ? epsDefault : epsIn;
  if (!(epsEff <= epsMax) || !(epsMax > 0)) {
    skipWhy = "epsilon-not-below-feature-size";
    return false;
  }
  {
    std::vector<RingRef> rr;
    for (auto& g : B.rings) rr.push_back({&g.p, g.hole});
    std::string bad = validateExact(rr);
    if (!bad.empty()) {
      skipWhy = "GENERATOR-BUG:" + bad;
      return false;
    }
  }
  P.lfs = localFeatureSize(B.rings);
  P.regime = epsIn == 0 ? "eps-zero" : (P.lfs < 4 * epsEff ? "thin-feature" : "general");
  // perturbations that keep the set within epsilon of the exactly valid one
  int degen = r.range(0, 3);  // 0 none, 1 collinear, 2 duplicates, 3 both
  P.degen = degen != 0 && !wantConvex;
  for (auto& g : B.rings) {
    if (!degen || wantConvex) break;
    std::vector<vec2> q;
    size_t n = g.p.size();
    double pc = r.uni(0.05, 0.5), pd = r.uni(0.05, 0.4);
    for (size_t i = 0; i < n; i++) {
      vec2 a = g.p[i], b = g.p[(i + 1) % n];
      q.push_back(a);
      if ((degen & 2) && r.chance(pd)) {  // duplicate of a within epsilon/4 (exact if epsilon is 0)
        int m = r.chance(0.8) ? 1 : r.range(2, 3);
        for (int k = 0; k < m; k++) {
          double ang = r.uni(0, kTwoPiH), len = r.chance(0.3) ? 0.0 : r.uni(0, 0.24) * epsEff;
          q.push_back(a + len * vec2(std::cos(ang), std::sin(ang)));
        }
      }
      if ((degen & 1) && r.chance(pc)) {  // collinear vertices on (a,b), sorted along the edge
        int m = r.chance(0.7) ? 1 : r.range(2, 4);
        std::vector<double> ts(m);
        for (auto& t : ts) t = r.uni(0.1, 0.9);
        std::sort(ts.begin(), ts.end());
        vec2 dir = b - a;
        vec2 nrm = vec2(-dir.y, dir.x) / la::length(dir);
        for (double t : ts) {
          double offn = r.chance(0.5) ? 0.0 : r.uni(-0.45, 0.45) * epsEff;
          q.push_back(a + t * dir + offn * nrm);
        }
      }
    }
    g.p.swap(q);
  }
  // assemble: random ring order, random start vertex
  std::vector<int> order(B.rings.size());
  for (size_t i = 0; i < order.size(); i++) order[i] = (int)i;
  for (size_t i = order.size(); i > 1; i--) std::swap(order[i - 1], order[r.below(i)]);
  P.polys.clear();
  P.V = P.h = P.o = 0;
  std::string kinds;
  for (int oi : order) {
    Ring& g = B.rings[oi];
    size_t n = g.p.size(), s0 = r.below(n);
    SimplePolygon sp(n);
    for (size_t i = 0; i < n; i++) sp[i] = g.p[(s0 + i) % n];
    P.polys.push_back(sp);
    P.V += (int)n;
    (g.hole ? P.h : P.o)++;
    if (kinds.size() < 80) kinds += std::string(kinds.empty() ? "" : ",") + (g.hole ? "-" : "+") + g.kind;
  }
  P.maxAbs = 0;
  for (auto& sp : P.polys)
    for (auto& v : sp) P.maxAbs = std::max({P.maxAbs, std::abs(v.x), std::abs(v.y)});
  P.epsIn = epsIn;
  P.epsEff = epsIn < 0 ? 1e-12 * P.maxAbs : epsIn;  // Rect::Scale() * kPrecision
  P.maxDepth = B.maxDepth;
  P.convexLooking = wantConvex && faces >= 1;
  P.desc = kinds;
  // index labels for TriangulateIdx: a permutation of 0..V-1, or spread with gaps
  P.idx.resize(P.V);
  int im = r.range(0, 2);
  for (int i = 0; i < P.V; i++) P.idx[i] = im == 0 ? i : (im == 1 ? 7 + 3 * i : i);
  if (im == 2)
    for (int i = P.V; i > 1; i--) std::swap(P.idx[i - 1], P.idx[r.below(i)]);
  return true;
}

static PolygonsIdx toIdx(const PolySet& P) {
  PolygonsIdx out;
  int k = 0;
  for (auto& sp : P.polys) {
    SimplePolygonIdx s;
    for (auto& v : sp) s.push_back({v, P.idx[k++]});
    out.push_back(s);
  }
  return out;
}

// --------------------------------------------------------------------- oracle
struct Verdict {
  std::string why;  // empty = all clauses hold
  std::string info;
  long inBand = 0, strictNeg = 0;
};

// tris are given in the index labels `labels` (size V, flattened order).
static Verdict checkTriangulation(const PolySet& P, const std::vector<int>& labels, const std::vector<ivec3>& tris) {
  Verdict v;
  const int V = P.V;
  std::vector<vec2> pos;
  pos.reserve(V);
  for (auto& sp : P.polys)
    for (auto& q : sp) pos.push_back(q);
  std::unordered_map<int, int> lab2pos;
  lab2pos.reserve(V * 2);
  for (int i = 0; i < V; i++) lab2pos[labels[i]] = i;
  // (a) indices
  std::vector<std::array<int, 3>> T(tris.size());
  for (size_t t = 0; t < tris.size(); t++)
    for (int k = 0; k < 3; k++) {
      auto it = lab2pos.find(tris[t][k]);
      if (it == lab2pos.end()) {
        v.why = "index-not-an-input-index";
        v.info = "triangle " + std::to_string(t) + " has index " + std::to_string(tris[t][k]);
        return v;
      }
      T[t][k] = it->second;
    }
  // (b) count: sum over outers of (V_i + 2 h_i - 2) = V - 2 + 2h - 2(o-1)
  long expect = (long)V - 2 + 2L * P.h - 2L * (P.o - 1);
  if ((long)tris.size() != expect) {
    v.why = "triangle-count";
    v.info = "got " + std::to_string(tris.size()) + " expected " + std::to_string(expect) + " (V=" + std::to_string(V) +
             " h=" + std::to_string(P.h) + " o=" + std::to_string(P.o) + ")";
    return v;
  }
  // (c) directed edges
  std::unordered_map<uint64_t, int> cnt;
  cnt.reserve(tris.size() * 6);
  auto key = [](int a, int b) { return ((uint64_t)(uint32_t)a << 32) | (uint32_t)b; };
  for (auto& t : T)
    for (int k = 0; k < 3; k++) cnt[key(t[k], t[(k + 1) % 3])]++;
  std::unordered_map<uint64_t, int> input;
  input.reserve(V * 2);
  {
    int base = 0;
    for (auto& sp : P.polys) {
      int n = (int)sp.size();
      for (int i = 0; i < n; i++) input[key(base + i, base + (i + 1) % n)]++;
      base += n;
    }
  }
  for (auto& kv : input) {
    int a = (int)(kv.first >> 32), b = (int)(kv.first & 0xFFFFFFFFu);
    auto it = cnt.find(kv.first);
    int c1 = it == cnt.end() ? 0 : it->second;
    if (c1 != 1) {
      v.why = c1 == 0 ? "input-edge-missing" : "input-edge-duplicated";
      v.info = "input edge " + std::to_string(a) + "->" + std::to_string(b) + " occurs " + std::to_string(c1) + " times";
      return v;
    }
    auto rv = cnt.find(key(b, a));
    if (rv != cnt.end() && rv->second > 0 && !input.count(key(b, a))) {
      v.why = "input-edge-reversed";
      v.info = "reverse of input edge " + std::to_string(a) + "->" + std::to_string(b) + " occurs " + std::to_string(rv->second) + " times";
      return v;
    }
  }
  for (auto& kv : cnt) {
    if (input.count(kv.first)) continue;
    int a = (int)(kv.first >> 32), b = (int)(kv.first & 0xFFFFFFFFu);
    auto rv = cnt.find(key(b, a));
    int c2 = rv == cnt.end() ? 0 : rv->second;
    if (input.count(key(b, a))) c2 -= 1;  // that one is the contour edge itself
    if (c2 != kv.second) {
      v.why = "interior-edge-unmatched";
      v.info = "edge " + std::to_string(a) + "->" + std::to_string(b) + " occurs " + std::to_string(kv.second) + " times, its reverse " +
               std::to_string(c2);
      return v;
    }
  }
  // (d) every triangle CCW within epsilon. Library meaning (utils.h CCW,
  // polygon.cpp CheckGeometry uses tol = 2*epsilon): CW iff area < 0 and
  // (2*area)^2 * 4 > base^2 * tol^2, i.e. |cross| > base * epsilon. The base is
  // taken as the LONGEST edge (the most lenient of the three vertex
  // rotations) and the oracle's own rounding error is added to the band.
  long double sum2 = 0;
  const long double rnd = 64.0L * DBL_EPSILON * P.maxAbs;
  for (size_t t = 0; t < T.size(); t++) {
    vec2 p0 = pos[T[t][0]], p1 = pos[T[t][1]], p2 = pos[T[t][2]];
    vec2 e1 = p1 - p0, e2 = p2 - p0, e3 = p2 - p1;
    long double cross = (long double)e1.x * e2.y - (long double)e1.y * e2.x;
    sum2 += cross;
    if (cross >= 0) continue;
    long double L = std::sqrt(std::max({(long double)la::dot(e1, e1), (long double)la::dot(e2, e2), (long double)la::dot(e3, e3)}));
    v.strictNeg++;
    if (-cross > L * ((long double)P.epsEff + rnd)) {
      v.why = "triangle-clockwise-beyond-epsilon";
      char b[300];
      snprintf(b, sizeof b, "triangle %zu (%d,%d,%d): cross=%.6Lg, longest edge=%.6Lg, height=%.6Lg, epsilon=%.6g", t, tris[t][0],
               tris[t][1], tris[t][2], cross, L, -cross / L, P.epsEff);
      v.info = b;
      return v;
    }
    if (-cross > L * (long double)P.epsEff / 2) v.inBand++;  // would fail the stricter tol=epsilon reading; not decided
  }
  // (e) area sum == polygon area (bound: epsilon * perimeter + rounding)
  long double poly2 = 0, perim = 0;
  for (auto& sp : P.polys) {
    poly2 += area2Of(sp);
    for (size_t i = 0; i < sp.size(); i++) perim += la::length(sp[(i + 1) % sp.size()] - sp[i]);
  }
  long double bound = (long double)P.epsEff * perim + 64.0L * DBL_EPSILON * (T.size() + V) * (long double)P.maxAbs * (long double)P.maxAbs;
  if (std::fabs((double)(sum2 / 2 - poly2 / 2)) > bound) {
    v.why = "area-sum";
    char b[200];
    snprintf(b, sizeof b, "sum of triangle areas %.17Lg vs polygon area %.17Lg, bound %.6Lg", sum2 / 2, poly2 / 2, bound);
    v.info = b;
    return v;
  }
  return v;
}

// Library call wrappers: which = 0 Triangulate(Polygons), 1 TriangulateIdx.
static std::vector<ivec3> callLib(const PolySet& P, int which, bool allowConvex, std::vector<int>& labels) {
  if (which == 0) {
    labels.resize(P.V);
    for (int i = 0; i < P.V; i++) labels[i] = i;
    return Triangulate(P.polys, P.epsIn, allowConvex);
  }
  labels = P.idx;
  return TriangulateIdx(toIdx(P), P.epsIn, allowConvex);
}

static bool strictlyConvexSingle(const PolySet& P) {
  for (auto& sp : P.polys) {
    size_t n = sp.size();
    for (size_t i = 0; i < n; i++) {
      vec2 a = sp[i], b = sp[(i + 1) % n], c2 = sp[(i + 2) % n];
      if (la::cross(b - a, c2 - b) <= 0) return false;
    }
  }
  return true;
}

static void validCase(vh::Ctx& c) {
  vh::Rng& r = c.rng;
  PolySet P;
  std::string skip;
  if (!buildValid(r, c.iparam("maxVerts", 600), P, skip)) {
    if (skip.rfind("GENERATOR-BUG", 0) == 0) {
      c.count("generator_bugs");
      c.inconclusive("case " + std::to_string(c.idx) + ": " + skip);
    } else
      c.count("skipped_" + skip);
    return;
  }
  c.count("valid_sets_rechecked_exactly");
  c.count("valid_sets");
  c.count("valid_vertices", P.V);
  c.maxi("max_vertices", P.V);
  c.maxi("max_nesting_depth", P.maxDepth);
  if (P.h) c.count("sets_with_holes");
  if (P.o > 1) c.count("sets_with_several_outers");
  if (P.degen) c.count("sets_with_collinear_or_duplicate_vertices");
  if (P.epsIn == 0) c.count("sets_with_epsilon_zero");
  if (P.epsIn > 0) c.count("sets_with_explicit_epsilon");
  c.count("sets_regime_" + P.regime);
  if (P.desc.find("grid") != std::string::npos) c.count("sets_on_integer_grid");
  bool cvx = strictlyConvexSingle(P);
  if (cvx) c.count("sets_all_strictly_convex");
  std::vector<ivec3> res[2];
  for (int ac = 0; ac < 2; ac++) {
    int which = r.range(0, 1);
    std::vector<int> labels;
    std::vector<ivec3> tris;
    c.site(std::string(which ? "TriangulateIdx" : "Triangulate") + (ac ? ":allowConvex" : ":earclip"));
    try {
      tris = callLib(P, which, ac == 1, labels);
    } catch (const std::exception& e) {
      c.violation(std::string("valid:throw:") + demangle(typeid(e).name()) + ":ac" + std::to_string(ac),
                  vh::J().s("what", e.what()).s("shapes", P.desc).d("epsilon", P.epsIn).raw("polys", jpolys(P.polys)).str());
      return;
    }
    c.count("triangulations_checked");
    c.count("triangles_checked", (long long)tris.size());
    Verdict v = checkTriangulation(P, labels, tris);
    c.count("triangles_negative_area_within_epsilon", v.strictNeg);
    c.count("triangles_between_half_epsilon_and_epsilon_not_decided", v.inBand);
    if (!v.why.empty()) {
      dumpText(P.polys, P.epsIn);
      // Key = regime first. Outside the general regime one key per regime (the
      // symptom is in the detail); allowConvex=true failing after allowConvex=false
      // passed on the same input means the convex fast path was wrongly taken.
      const std::string epsc = P.epsIn < 0 ? "eps-default" : P.epsIn == 0 ? "eps-zero" : "eps-explicit";
      std::string key;
      if (P.regime != "general") key = "valid:" + P.regime + ":oracle-violated";
      else if (ac == 1) key = "valid:allowConvex-fast-path-wrong:" + epsc + (P.degen ? ":dup-or-collinear" : ":plain");
      else key = "valid:" + v.why + (P.h ? ":holes:" : ":noholes:") + epsc;
      c.violation(key,
                  vh::J().s("why", v.why).s("info", v.info).s("api", which ? "TriangulateIdx" : "Triangulate").bo("allowConvex", ac == 1)
                      .s("regime", P.regime).d("smallest_distance_between_nonadjacent_edges", P.lfs)
                      .s("shapes", P.desc).i("V", P.V).i("h", P.h).i("o", P.o).d("epsilon_in", P.epsIn).d("epsilon_eff", P.epsEff)
                      .raw("polys", jpolys(P.polys)).raw("labels", which ? vh::jarr(labels, 8000) : "\"identity\"").raw("tris", jtris(tris)).str());
      return;
    }
    // normalise to flattened positions for the convex-path comparison
    std::unordered_map<int, int> l2p;
    for (int i = 0; i < P.V; i++) l2p[labels[i]] = i;
    for (auto t : tris) res[ac].push_back(ivec3(l2p[t[0]], l2p[t[1]], l2p[t[2]]));
  }
  if (cvx && res[0] != res[1]) c.count("convex_fast_path_observed_(result_differs_from_earclip)");
  int vb = 0;
  for (int x = P.V; x > 1; x >>= 1) vb++;
  c.sig("valid:" + P.desc.substr(0, 24) + ":" + std::to_string(vb) + ":" + std::to_string(P.h > 3 ? 3 : P.h) + ":" + std::to_string(P.o) +
        ":" + std::to_string(P.maxDepth) + ":" + (P.epsIn < 0 ? "d" : P.epsIn == 0 ? "0" : "e") + (P.degen ? "g" : ""));
  if (c.idx % 499 == 0)
    c.sample(vh::J().s("mode", "valid").i("idx", c.idx).s("shapes", P.desc).i("V", P.V).i("h", P.h).i("o", P.o).d("epsilon", P.epsIn)
                 .i("triangles", (long long)res[0].size()).str());
}

// -------------------------------------------------------------------- garbage
static double extreme(vh::Rng& r) {
  static const double v[] = {0.0, -0.0, 4.9406564584124654e-324, -4.9406564584124654e-324, 1e-300, -1e-300, 1e-160, 1.0, -1.0, 0.5,
                             1e150, -1e150, 1e160, 1e300, -1e300, DBL_MAX, -DBL_MAX, DBL_MIN, 1e15, 3.0};
  return v[r.below(sizeof v / sizeof v[0])];
}

struct Garbage {
  PolygonsIdx polys;
  double eps;
  std::string kind;
  bool validLike = false;
};

static void genGarbage(vh::Rng& r, long maxVerts, int minRing, Garbage& G) {
  int kind = r.range(0, 7);
  static const char* names[] = {"lattice", "random", "mutated-valid", "extreme", "collinear-or-identical", "star-polygon", "overlapping-copies", "repeated-idx"};
  G.kind = names[kind];
  Polygons ps;
  auto ringLen = [&]() { return r.chance(0.15) ? r.range(minRing, 3) : (r.chance(0.9) ? r.range(3, 12) : r.range(12, (int)std::max<long>(13, maxVerts))); };
  double S = std::pow(10.0, r.uni(-9, 9));
  switch (kind) {
    case 0: {
      int L = r.range(1, 6), rings = r.range(1, 4);
      for (int i = 0; i < rings; i++) {
        SimplePolygon sp;
        for (int j = ringLen(); j > 0; j--) sp.push_back(vec2(r.range(0, L), r.range(0, L)));
        ps.push_back(sp);
      }
      break;
    }
    case 1: {
      int rings = r.range(1, 3);
      for (int i = 0; i < rings; i++) {
        SimplePolygon sp;
        for (int j = ringLen(); j > 0; j--) sp.push_back(vec2(r.uni(-S, S), r.uni(-S, S)));
        ps.push_back(sp);
      }
      break;
    }
    case 2:
    case 6:
    case 7: {
      PolySet P;
      std::string w;
      while (!buildValid(r, std::min<long>(maxVerts, 200), P, w)) {}
      ps = P.polys;
      int m = kind == 6 ? 1 : r.range(1, 3);
      for (int k = 0; k < m; k++) {
        size_t ri = r.below(ps.size());
        auto& sp = ps[ri];
        switch (kind == 6 ? 3 : r.range(0, 6)) {
          case 0: std::reverse(sp.begin(), sp.end()); break;                               // wrong winding
          case 1: std::swap(sp[r.below(sp.size())], sp[r.below(sp.size())]); break;         // self-intersection
          case 2: sp[r.below(sp.size())] = ps[r.below(ps.size())][0]; break;               // vertex jumps to another contour
          case 3: {                                                                       // overlapping (shifted) copy
            SimplePolygon cp = sp;
            vec2 sh = r.chance(0.3) ? vec2(0.0) : (sp[0] - sp[sp.size() / 2]) * r.uni(0, 0.5);
            for (auto& v : cp) v += sh;
            ps.push_back(cp);
            break;
          }
          case 4: for (auto& v : sp) v = sp[0] + (v - sp[0]) * 30.0; break;                // hole blown up beyond its parent
          case 5: sp.resize(std::max<size_t>(minRing, r.below(sp.size()))); break;         // truncated ring
          default: for (auto& v : sp) v.y = sp[0].y; break;                                // flattened ring
        }
      }
      break;
    }
    case 3: {
      int rings = r.range(1, 3);
      for (int i = 0; i < rings; i++) {
        SimplePolygon sp;
        for (int j = ringLen(); j > 0; j--) sp.push_back(vec2(extreme(r), extreme(r)));
        ps.push_back(sp);
      }
      break;
    }
    case 4: {
      SimplePolygon sp;
      vec2 a(r.uni(-S, S), r.uni(-S, S)), d(r.uni(-S, S), r.uni(-S, S));
      bool same = r.chance(0.3);
      for (int j = ringLen(); j > 0; j--) sp.push_back(same ? a : a + d * (double)r.range(-3, 3));
      ps.push_back(sp);
      if (r.chance(0.3)) ps.push_back(sp);
      break;
    }
    default: {  // star polygon {n/k}: winding number 2 and more
      int n = r.range(5, 15), k = r.range(2, n / 2);
      SimplePolygon sp;
      for (int i = 0; i < n; i++) {
        double a = kTwoPiH * ((i * k) % n) / n;
        sp.push_back(S * vec2(std::cos(a), std::sin(a)));
      }
      ps.push_back(sp);
      break;
    }
  }
  // drop rings below the allowed minimum (kept for the dedicated `rings` mode)
  Polygons keep;
  for (auto& sp : ps)
    if ((int)sp.size() >= minRing) keep.push_back(sp);
  int id = 0;
  G.polys.clear();
  int nTot = 0;
  for (auto& sp : keep) nTot += (int)sp.size();
  for (auto& sp : keep) {
    SimplePolygonIdx s;
    for (auto& v : sp) {
      int lab = id++;
      if (kind == 7 && r.chance(0.2)) lab = (int)r.below(std::max(1, nTot));  // a vertex index used twice
      s.push_back({v, lab});
    }
    G.polys.push_back(s);
  }
  double maxAbs = 0;
  for (auto& sp : keep)
    for (auto& v : sp) maxAbs = std::max({maxAbs, std::abs(v.x), std::abs(v.y)});
  // a huge epsilon makes every ear test scan every vertex (quadratic): keep
  // those for inputs of moderate size so the stage stays bounded by case count
  static const int smallEps[4] = {0, 1, 2, 6};
  switch (nTot > 150 ? smallEps[r.below(4)] : r.range(0, 7)) {
    case 0: G.eps = 0; break;
    case 1: G.eps = 1e-300; break;
    case 2: G.eps = 1e-12 * maxAbs; break;
    case 3: G.eps = 0.1 * maxAbs; break;
    case 4: G.eps = r.chance(0.5) ? 1e300 : DBL_MAX; break;
    case 5: G.eps = 10 * maxAbs; break;
    default: G.eps = -1;
  }
}

// true if every triangle index is one of the input labels
static bool indicesValid(const PolygonsIdx& polys, const std::vector<ivec3>& tris, std::string& info) {
  std::unordered_map<int, int> labs;
  for (auto& sp : polys)
    for (auto& v : sp) labs[v.idx] = 1;
  for (size_t t = 0; t < tris.size(); t++)
    for (int k = 0; k < 3; k++)
      if (!labs.count(tris[t][k])) {
        info = "triangle " + std::to_string(t) + " has index " + std::to_string(tris[t][k]);
        return false;
      }
  return true;
}

static std::string jpolysIdx(const PolygonsIdx& p, size_t cap = 300) {
  std::string s = "[";
  size_t n = 0;
  for (size_t i = 0; i < p.size(); i++) {
    if (i) s += ",";
    s += "[";
    for (size_t j = 0; j < p[i].size(); j++) {
      if (n++ > cap) { s += (j ? "," : ""); s += "\"...\""; break; }
      if (j) s += ",";
      s += "[" + jn(p[i][j].pos.x) + "," + jn(p[i][j].pos.y) + "," + std::to_string(p[i][j].idx) + "]";
    }
    s += "]";
  }
  return s + "]";
}

// Runs one finite input through the public entry points; returns false after a violation.
static bool runGarbage(vh::Ctx& c, const Garbage& G, int onlyAc = -1) {
  // structural class of the input (part of the violation key)
  size_t minLen = 1000;
  for (auto& sp : G.polys) minLen = std::min(minLen, sp.size());
  const std::string keyClass = G.polys.empty() ? "no-rings" : minLen == 0 ? "empty-ring" : minLen == 1 ? "1-point-ring" : minLen == 2 ? "2-point-ring" : "general";
  for (int ac = 0; ac < 2; ac++) {
    if (onlyAc >= 0 && ac != onlyAc) continue;
    std::vector<ivec3> tris;
    c.site(std::string("TriangulateIdx:garbage") + (ac ? ":allowConvex" : ":earclip"));
    try {
      tris = TriangulateIdx(G.polys, G.eps, ac == 1);
    } catch (const std::exception& e) {
      std::string ty = demangle(typeid(e).name());
      // documented: geometryErr / topologyErr from the MANIFOLD_DEBUG checks on invalid input
      if (ty == "manifold::geometryErr" || ty == "manifold::topologyErr") {
        c.count("garbage_documented_throws");
        continue;
      }
      c.violation("garbage:throw:" + ty + ":" + keyClass + ":ac" + std::to_string(ac),
                  vh::J().s("what", e.what()).s("type", ty).s("kind", G.kind).d("epsilon", G.eps).bo("allowConvex", ac == 1)
                      .raw("polys_x_y_idx", jpolysIdx(G.polys)).str());
      return false;
    }
    c.count("garbage_calls_returned");
    c.count("garbage_triangles", (long long)tris.size());
    std::string info;
    if (!indicesValid(G.polys, tris, info)) {
      c.violation("garbage:index-not-an-input-index:" + keyClass + ":ac" + std::to_string(ac),
                  vh::J().s("info", info).s("kind", G.kind).d("epsilon", G.eps).raw("polys_x_y_idx", jpolysIdx(G.polys)).raw("tris", jtris(tris)).str());
      return false;
    }
  }
  return true;
}

static void garbageCase(vh::Ctx& c) {
  Garbage G;
  genGarbage(c.rng, c.iparam("maxVerts", 300), (int)c.iparam("minRing", 3), G);
  size_t nv = 0;
  for (auto& sp : G.polys) nv += sp.size();
  c.count("garbage_inputs");
  c.count("garbage_kind_" + G.kind);
  if (!runGarbage(c, G)) return;
  int vb = 0;
  for (size_t x = nv; x > 1; x >>= 1) vb++;
  if (nv >= 3) c.sig("garbage:" + G.kind + ":" + std::to_string(vb) + ":" + (G.eps < 0 ? "d" : G.eps == 0 ? "0" : G.eps > 1e100 ? "H" : "e"));
  if (c.idx % 997 == 0) c.sample(vh::J().s("mode", "garbage").i("idx", c.idx).s("kind", G.kind).i("verts", (long long)nv).d("epsilon", G.eps).str());
}

// Enumerated degenerate ring configurations: idx -> (config, coordinates).
static void ringsCase(vh::Ctx& c) {
  static const int cfg[][4] = {
      // ring sizes (-1 = absent)
      {0, -1, -1, -1}, {1, -1, -1, -1}, {2, -1, -1, -1}, {0, 0, -1, -1}, {1, 1, -1, -1}, {2, 2, -1, -1},
      {0, 3, -1, -1},  {3, 0, -1, -1},  {1, 3, -1, -1},  {3, 1, -1, -1}, {2, 3, -1, -1}, {3, 2, -1, -1},
      {4, 0, 1, 2},    {0, 5, 0, -1},   {1, 4, 1, -1},   {2, 4, 2, -1},  {1, 2, -1, -1}, {5, 1, 3, -1},
  };
  const int ncfg = sizeof cfg / sizeof cfg[0];
  int k = (int)(c.idx % ncfg);
  Garbage G;
  G.kind = "rings";
  int id = 0;
  std::string name;
  for (int j = 0; j < 4; j++) {
    if (cfg[k][j] < 0) continue;
    SimplePolygonIdx s;
    int n = cfg[k][j];
    for (int i = 0; i < n; i++) {
      double a = kTwoPiH * i / std::max(1, n);
      vec2 p = n >= 3 ? vec2(std::cos(a), std::sin(a)) * (1.0 + j) : vec2(c.rng.range(-2, 2), c.rng.range(-2, 2));
      s.push_back({p + vec2(5.0 * j, 0.0), id++});
    }
    G.polys.push_back(s);
    name += (name.empty() ? "" : "+") + std::to_string(n);
  }
  G.eps = (c.idx / ncfg) % 2 ? 1e-6 : -1;
  int ac = (int)((c.idx / (2 * ncfg)) % 2);
  c.count("ring_configs");
  if (!runGarbage(c, G, ac)) return;
  c.sig("rings:" + name + ":" + (G.eps < 0 ? "d" : "e") + (ac ? "c" : "-"));
}

// ---------------------------------------------------------------------- reuse
static bool sameHalfedges(const HalfedgeTriangulation& a, const HalfedgeTriangulation& b, std::string& info) {
  if (a.contourEnd != b.contourEnd) { info = "contourEnd " + std::to_string(a.contourEnd) + " vs " + std::to_string(b.contourEnd); return false; }
  if (memcmp(&a.epsilon, &b.epsilon, sizeof(double)) != 0) { info = "epsilon " + jn(a.epsilon) + " vs " + jn(b.epsilon); return false; }
  if (a.halfedges.size() != b.halfedges.size()) {
    info = "halfedge count " + std::to_string(a.halfedges.size()) + " vs " + std::to_string(b.halfedges.size());
    return false;
  }
  for (size_t i = 0; i < a.halfedges.size(); i++) {
    const Halfedge &x = a.halfedges[i], &y = b.halfedges[i];
    if (x.startVert != y.startVert || x.endVert != y.endVert || x.pairedHalfedge != y.pairedHalfedge || x.propVert != y.propVert) {
      info = "halfedge " + std::to_string(i) + ": (" + std::to_string(x.startVert) + "," + std::to_string(x.endVert) + "," +
             std::to_string(x.pairedHalfedge) + "," + std::to_string(x.propVert) + ") vs (" + std::to_string(y.startVert) + "," +
             std::to_string(y.endVert) + "," + std::to_string(y.pairedHalfedge) + "," + std::to_string(y.propVert) + ")";
      return false;
    }
  }
  return true;
}

// For a valid set: the pairing of the returned halfedges is the one Finalize()
// asserts in debug builds (reciprocal, endpoints reversed).
static std::string pairingProblem(const HalfedgeTriangulation& h) {
  const int n = (int)h.halfedges.size();
  for (int i = 0; i < n; i++) {
    int p = h.halfedges[i].pairedHalfedge;
    if (p < 0 || p >= n) return "halfedge " + std::to_string(i) + " has pair " + std::to_string(p);
    if (h.halfedges[p].pairedHalfedge != i) return "pair of halfedge " + std::to_string(i) + " is not reciprocal";
    if (h.halfedges[p].startVert != h.halfedges[i].endVert || h.halfedges[p].endVert != h.halfedges[i].startVert)
      return "pair of halfedge " + std::to_string(i) + " does not have reversed endpoints";
  }
  return "";
}

static void reuseCase(vh::Ctx& c) {
  vh::Rng& r = c.rng;
  const long maxVerts = c.iparam("maxVerts", 400);
  const int minRing = (int)c.iparam("minRing", 3);
  int len = r.range(3, (int)c.iparam("seqLen", 12));
  PolygonTriangulator reused;
  std::string log;
  long nontrivial = 0;
  for (int s = 0; s < len; s++) {
    PolygonsIdx polys;
    double eps;
    bool valid = r.chance(0.6);
    PolySet P;
    std::string kind;
    if (valid) {
      std::string w;
      // alternate big and small inputs so that stale state would be visible
      long mv = (s % 2) ? std::max<long>(8, maxVerts / 20) : maxVerts;
      if (!buildValid(r, mv, P, w)) {
        if (w.rfind("GENERATOR-BUG", 0) == 0) c.inconclusive("case " + std::to_string(c.idx) + ": " + w);
        else c.count("skipped_" + w);
        continue;
      }
      polys = toIdx(P);
      eps = P.epsIn;
      kind = "valid(" + P.desc.substr(0, 30) + ")";
    } else {
      Garbage G;
      genGarbage(r, maxVerts, minRing, G);
      polys = G.polys;
      eps = G.eps;
      kind = "garbage(" + G.kind + ")";
    }
    if (polys.empty()) continue;
    bool ac = r.chance(0.5);
    int api = r.range(0, 2);  // 0,1: TriangulateIdxHalfedges with the reused object; 2: PolygonTriangulator::Triangulate directly
    log += (log.empty() ? "" : " ; ") + kind + (ac ? ":ac" : "") + ":api" + std::to_string(api);
    HalfedgeTriangulation a, b, d;
    try {
      if (api < 2) {
        c.site("TriangulateIdxHalfedges:reused");
        a = TriangulateIdxHalfedges(polys, eps, ac, reused);
        c.site("TriangulateIdxHalfedges:fresh");
        b = TriangulateIdxHalfedges(polys, eps, ac);
        PolygonTriangulator fresh;
        d = TriangulateIdxHalfedges(polys, eps, ac, fresh);
      } else {
        c.site("PolygonTriangulator::Triangulate:reused");
        a = reused.Triangulate(polys, eps);
        a.epsilon = reused.GetPrecision();
        a.Finalize();
        c.site("PolygonTriangulator::Triangulate:fresh");
        PolygonTriangulator fresh;
        b = fresh.Triangulate(polys, eps);
        b.epsilon = fresh.GetPrecision();
        b.Finalize();
        d = b;
      }
    } catch (const std::exception& e) {
      std::string ty = demangle(typeid(e).name());
      if (!valid && (ty == "manifold::geometryErr" || ty == "manifold::topologyErr")) { c.count("garbage_documented_throws"); continue; }
      c.violation("reuse:throw:" + ty + (valid ? ":valid" : ":garbage"),
                  vh::J().s("what", e.what()).s("sequence", log).raw("polys_x_y_idx", jpolysIdx(polys)).str());
      return;
    }
    c.count("reuse_comparisons");
    c.count("reuse_halfedges_compared", (long long)a.halfedges.size());
    std::string info;
    if (!sameHalfedges(a, b, info) || !sameHalfedges(a, d, info)) {
      c.violation(std::string("reuse:differs:") + (valid ? "valid" : "garbage") + (api == 2 ? ":direct" : ":TriangulateIdxHalfedges"),
                  vh::J().s("info", info).i("step", s).s("sequence", log).d("epsilon", eps).bo("allowConvex", ac)
                      .raw("polys_x_y_idx", jpolysIdx(polys)).str());
      return;
    }
    if (valid) {
      std::string pp = pairingProblem(a);
      if (!pp.empty()) {
        c.violation("reuse:halfedge-pairing:valid", vh::J().s("info", pp).s("sequence", log).raw("polys_x_y_idx", jpolysIdx(polys)).str());
        return;
      }
      Verdict v;
      if (P.regime == "general" && !ac) v = checkTriangulation(P, P.idx, a.Triangles());  // other regimes / fast path: stage valid
      if (!v.why.empty()) {
        dumpText(P.polys, P.epsIn);
        c.violation("reuse:" + v.why + (P.h ? ":holes" : ":noholes"),
                    vh::J().s("why", v.why).s("info", v.info).s("sequence", log).d("epsilon_in", P.epsIn).raw("polys", jpolys(P.polys))
                        .raw("tris", jtris(a.Triangles())).str());
        return;
      }
    }
    if (a.NumTri() > 0) nontrivial++;
  }
  if (nontrivial >= 2) c.sig("reuse:" + std::to_string(vh::fnvs(log)));
  if (c.idx % 397 == 0) c.sample(vh::J().s("mode", "reuse").i("idx", c.idx).s("sequence", log).str());
}


// --------------------------------------------------------------------- corpus
// The repo's recorded polygons (test/polygons/*.txt). They are not valid by
// construction, so: every entry gets the garbage-level oracle (returns, input
// indices). An entry additionally gets the FULL oracle only if the harness's
// exact re-check proves it strictly valid (simple, disjoint, consistent
// nesting) and its epsilon is <= 1% of the smallest distance between
// non-adjacent edges and of every contour's mean width.
struct CorpusEntry {
  std::string name, file;
  int expected;
  double eps;
  Polygons polys;
};
static std::vector<CorpusEntry>* gCorpus = nullptr;
static void loadCorpus() {
  gCorpus = new std::vector<CorpusEntry>();
  const char* repo = getenv("VERIF_REPO");
  std::string base = std::string(repo ? repo : "/repo") + "/test/polygons/";
  for (const char* fn : {"polygon_corpus.txt", "sponge.txt", "zebra.txt", "zebra3.txt"}) {
    FILE* f = fopen((base + fn).c_str(), "r");
    if (!f) continue;
    char nm[512];
    while (fscanf(f, "%500s", nm) == 1) {
      CorpusEntry e;
      e.name = nm;
      e.file = fn;
      int np = 0;
      if (fscanf(f, "%d %lf %d", &e.expected, &e.eps, &np) != 3) break;
      for (int i = 0; i < np; i++) {
        int k = 0;
        if (fscanf(f, "%d", &k) != 1) break;
        SimplePolygon sp(k);
        for (auto& v : sp)
          if (fscanf(f, "%lf %lf", &v.x, &v.y) != 2) break;
        e.polys.push_back(sp);
      }
      gCorpus->push_back(e);
    }
    fclose(f);
  }
}
static double segSegDist(vec2 a, vec2 b, vec2 c, vec2 d) {
  return std::min({distPointSeg(a, c, d), distPointSeg(b, c, d), distPointSeg(c, a, b), distPointSeg(d, a, b)});
}
static void corpusCase(vh::Ctx& c) {
  if (!gCorpus) loadCorpus();
  if (gCorpus->empty()) { c.inconclusive("polygon corpus not found under VERIF_REPO/test/polygons"); return; }
  const CorpusEntry& e = (*gCorpus)[c.idx % gCorpus->size()];
  int variant = (int)(c.idx / gCorpus->size());  // 0 as recorded, 1 turned by 180 degrees (as the repo's own test does)
  PolySet P;
  P.polys = e.polys;
  if (variant % 2)
    for (auto& sp : P.polys)
      for (auto& v : sp) v = -v;
  P.epsIn = e.eps;
  for (auto& sp : P.polys) {
    P.V += (int)sp.size();
    for (auto& v : sp) P.maxAbs = std::max({P.maxAbs, std::abs(v.x), std::abs(v.y)});
  }
  P.epsEff = P.epsIn < 0 ? 1e-12 * P.maxAbs : P.epsIn;
  P.idx.resize(P.V);
  for (int i = 0; i < P.V; i++) P.idx[i] = i;
  c.count("corpus_entries");
  // can the full oracle be applied?
  bool full = false;
  bool finite = true;
  for (auto& sp : P.polys) {
    if (sp.size() < 3) finite = false;
    for (auto& v : sp) finite = finite && std::isfinite(v.x) && std::isfinite(v.y);
  }
  if (finite && P.V <= 3000 && !P.polys.empty()) {
    std::vector<RingRef> rr;
    for (auto& sp : P.polys) rr.push_back({&sp, area2Of(sp) < 0});
    if (validateExact(rr).empty()) {
      double lim = 1e300;
      struct E { vec2 a, b; int ring, i, n; };
      std::vector<E> es;
      for (size_t r = 0; r < P.polys.size(); r++) {
        auto& sp = P.polys[r];
        vec2 lo(1e300), hi(-1e300);
        for (size_t i = 0; i < sp.size(); i++) {
          es.push_back({sp[i], sp[(i + 1) % sp.size()], (int)r, (int)i, (int)sp.size()});
          lo = la::min(lo, sp[i]);
          hi = la::max(hi, sp[i]);
        }
        lim = std::min(lim, (double)std::abs(area2Of(sp)) / 2 / std::max(hi.x - lo.x, hi.y - lo.y));
      }
      for (size_t x = 0; x < es.size(); x++)
        for (size_t y = x + 1; y < es.size(); y++) {
          const E &p = es[x], &q = es[y];
          if (p.ring == q.ring && ((p.i + 1) % p.n == q.i || (q.i + 1) % q.n == p.i)) continue;
          lim = std::min(lim, segSegDist(p.a, p.b, q.a, q.b));
        }
      if (P.epsEff <= 0.01 * lim) {
        full = true;
        for (auto& g : rr) (g.hole ? P.h : P.o)++;
      }
    }
  }
  c.count(full ? "corpus_entries_proved_valid_full_oracle" : "corpus_entries_garbage_oracle_only");
  for (int ac = 0; ac < 2; ac++) {
    std::vector<ivec3> tris;
    c.site(std::string("Triangulate:corpus") + (ac ? ":allowConvex" : ":earclip"));
    try {
      tris = Triangulate(P.polys, P.epsIn, ac == 1);
    } catch (const std::exception& ex) {
      c.violation(std::string("corpus:throw:") + demangle(typeid(ex).name()), vh::J().s("entry", e.name).s("file", e.file).s("what", ex.what()).str());
      return;
    }
    c.count((long)tris.size() == e.expected ? "corpus_count_as_recorded" : "corpus_count_differs_from_recording_(observation_only)");
    if (full) {
      Verdict v = checkTriangulation(P, P.idx, tris);
      if (!v.why.empty()) {
        c.violation("corpus:" + v.why + ":ac" + std::to_string(ac),
                    vh::J().s("entry", e.name).s("file", e.file).i("turned", variant % 2).s("why", v.why).s("info", v.info).d("epsilon", P.epsIn)
                        .i("V", P.V).i("h", P.h).i("o", P.o).raw("polys", jpolys(P.polys)).raw("tris", jtris(tris)).str());
        return;
      }
    } else {
      for (size_t t = 0; t < tris.size(); t++)
        for (int k = 0; k < 3; k++)
          if (tris[t][k] < 0 || tris[t][k] >= P.V) {
            c.violation("corpus:index-not-an-input-index:ac" + std::to_string(ac), vh::J().s("entry", e.name).s("file", e.file).i("index", tris[t][k]).str());
            return;
          }
    }
  }
  c.sig("corpus:" + e.file + ":" + e.name + ":" + std::to_string(variant % 2));
}

void vh_case(vh::Ctx& c) {
  std::string mode = c.param("mode", "valid");
  if (mode == "valid") validCase(c);
  else if (mode == "garbage") garbageCase(c);
  else if (mode == "rings") ringsCase(c);
  else if (mode == "reuse") reuseCase(c);
  else if (mode == "corpus") corpusCase(c);
  else c.inconclusive("unknown mode " + mode);
}
