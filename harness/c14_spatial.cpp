// C14 — spatial indices report exactly the overlapping pairs (DESIGN.md §4 C14).
//
// Monitors (the oracle is an all-pairs scan with the harness's OWN closed-
// interval tests; nothing from Box/Box2/Rect::DoesOverlap/Contains is called
// by the oracle):
//   mode=exh      exhaustive small Collider space (see ExhSpace below)
//   mode=collider random Collider leaf sets: box / point / self queries after
//                 construction, on an untouched copy, after an axis-aligned
//                 Transform and after UpdateBoxes
//   mode=bvh2d    BVHBuildFromBoxes + BVHCollisions / CollidePairs, and
//                 CollectIntersectionPairs (x-sorted sweep path vs BVH path)
//   mode=tree2d   BuildTwoDTree + QueryTwoDTree vs a scan of the input points
//
// Preconditions respected exactly as the library establishes them
// (sort.cpp / impl.cpp / boolean2.cpp): leaf Morton codes sorted ascending
// (stable), leaf boxes permuted with them, >= 2 leaves, finite boxes with
// min <= max, Transform only with axis-aligned matrices, UpdateBoxes with the
// same leaf count, QueryTwoDTree only on a vector processed by BuildTwoDTree,
// edge boxes = BoxOf2DEdge(v0, v1, eps) with v0 != v1.
#include <algorithm>
#include <functional>
#include <mutex>

#include "boolean2.h"
#include "collider.h"
#include "tree2d.h"

#include "common/vh.h"

using namespace manifold;

typedef std::vector<std::pair<int, int>> Pairs;

// --------------------------------------------------------------- oracle tests
static inline bool ovBB(const Box& a, const Box& b) {
  return a.min.x <= b.max.x && b.min.x <= a.max.x && a.min.y <= b.max.y && b.min.y <= a.max.y &&
         a.min.z <= b.max.z && b.min.z <= a.max.z;
}
// documented point test: XY projection, closed (common.h Box::DoesOverlap(vec3))
static inline bool ovBP(const Box& a, const vec3& p) {
  return a.min.x <= p.x && p.x <= a.max.x && a.min.y <= p.y && p.y <= a.max.y;
}
static inline bool ovB2(const Box2& a, const Box2& b) {
  return a.min.x <= b.max.x && b.min.x <= a.max.x && a.min.y <= b.max.y && b.min.y <= a.max.y;
}
static inline bool ov(const Box& a, const Box& b) { return ovBB(a, b); }
static inline bool ov(const Box& a, const vec3& p) { return ovBP(a, p); }

// Recorder usable from parallel queries: per-thread buffers in PAR builds
// (tbb::combinable, as the library's own recorders do), one vector otherwise.
#if (MANIFOLD_PAR == 1)
struct LockRec {
  using Local = Pairs;
  tbb::combinable<Pairs> tls;
  Pairs all;
  void record(int q, int l, Local& loc) { loc.emplace_back(q, l); }
  Local& local() { return tls.local(); }
  void finish() {
    tls.combine_each([&](const Pairs& p) { all.insert(all.end(), p.begin(), p.end()); });
  }
};
#else
struct LockRec {
  using Local = Pairs;
  Pairs all;
  void record(int q, int l, Local& loc) { loc.emplace_back(q, l); }
  Local& local() { return all; }
  void finish() {}
};
#endif

// JSON-safe number (non-finite values become strings, so a journal line
// carrying a witness always parses)
static std::string jn(double v) {
  if (!std::isfinite(v)) return std::isnan(v) ? "\"nan\"" : (v > 0 ? "\"inf\"" : "\"-inf\"");
  char t[40];
  snprintf(t, sizeof t, "%.17g", v);
  return t;
}
static std::string jb(const Box& b) {
  return "[" + jn(b.min.x) + "," + jn(b.min.y) + "," + jn(b.min.z) + "," + jn(b.max.x) + "," + jn(b.max.y) + "," + jn(b.max.z) + "]";
}
static std::string jb(const vec3& p) { return "[" + jn(p.x) + "," + jn(p.y) + "," + jn(p.z) + "]"; }
static std::string jb(const Box2& b) {
  return "[" + jn(b.min.x) + "," + jn(b.min.y) + "," + jn(b.max.x) + "," + jn(b.max.y) + "]";
}
template <class T>
static std::string jlist(const std::vector<T>& v, size_t cap = 40) {
  std::string s = "[";
  for (size_t i = 0; i < v.size() && i < cap; i++) {
    if (i) s += ",";
    s += jb(v[i]);
  }
  if (v.size() > cap) s += ",\"...(" + std::to_string(v.size()) + ")\"";
  return s + "]";
}

// Compare a recorded (query, leaf) list with the brute-force list.
// expected must be sorted and duplicate free. Returns "" or the failure kind,
// and the offending pair.
static std::string diffPairs(Pairs got, const Pairs& expected, std::pair<int, int>& bad) {
  std::sort(got.begin(), got.end());
  if (got == expected) return "";
  Pairs d;
  std::set_difference(expected.begin(), expected.end(), got.begin(), got.end(), std::back_inserter(d));
  if (!d.empty()) {
    bad = d[0];
    return "missing";
  }
  std::set_difference(got.begin(), got.end(), expected.begin(), expected.end(), std::back_inserter(d));
  // d now holds extras including surplus copies
  for (auto& p : d)
    if (!std::binary_search(expected.begin(), expected.end(), p)) {
      bad = p;
      return "extra";
    }
  bad = d.empty() ? std::make_pair(-1, -1) : d[0];
  return "duplicate";
}

template <class Q>
static Pairs bruteCollider(const std::vector<Box>& leaves, const std::vector<Q>& qs, size_t nq, bool self) {
  Pairs e;
  for (size_t q = 0; q < nq; q++)
    for (size_t l = 0; l < leaves.size(); l++)
      if (ov(leaves[l], qs[q]) && !(self && q == l)) e.emplace_back((int)q, (int)l);
  return e;
}

struct ColCase {
  std::vector<Box> leaves;        // current expected leaf boxes (sorted order)
  std::vector<uint32_t> codes;    // sorted
  std::string style, mstyle;
};

// Runs one kind of query against `col` and checks it. `form` selects the
// VecView overload (0) or the functor overload (1) of Collider::Collisions.
template <bool Self, class Q>
static bool checkQueries(vh::Ctx& c, const Collider& col, const ColCase& cc, const std::vector<Q>& qs, size_t nq,
                         const char* phase, const char* qkind, int form, bool par) {
  Vec<Q> qv(qs);
  LockRec rec;
  if (form == 0 && nq == qs.size()) {
    col.Collisions<Self>(rec, qv.cview(), par);
  } else {
    auto f = [&qv](const int i) { return qv[i]; };
    col.Collisions<Self>(rec, f, (int)nq, par);
  }
  rec.finish();
  c.heartbeat();
  Pairs exp = bruteCollider(cc.leaves, qs, nq, Self);
  c.count("collider_queries", (long long)nq);
  c.count("collider_pairs_expected", (long long)exp.size());
  c.count("collider_pair_tests", (long long)(nq * cc.leaves.size()));
  std::pair<int, int> bad;
  std::string why = diffPairs(rec.all, exp, bad);
  if (why.empty()) return true;
  std::string key = std::string("collider:") + phase + ":" + why + ":" + qkind + (Self ? ":self" : "");
  vh::J d;
  d.s("why", why).s("phase", phase).s("query_kind", qkind).bo("self", Self).i("n_leaves", (long long)cc.leaves.size())
      .i("n_queries", (long long)nq).i("bad_query", bad.first).i("bad_leaf", bad.second)
      .s("coord_style", cc.style).s("morton_style", cc.mstyle).i("got", (long long)rec.all.size())
      .i("expected", (long long)exp.size());
  if (bad.first >= 0 && bad.first < (int)qs.size()) d.raw("query", jb(qs[bad.first]));
  if (bad.second >= 0 && bad.second < (int)cc.leaves.size()) d.raw("leaf_box", jb(cc.leaves[bad.second]));
  d.raw("codes", vh::jarr(cc.codes, 40)).raw("leaves", jlist(cc.leaves, 40));
  c.violation(key, d.str());
  return false;
}

// The library's Box::Transform evaluated with the same expression shape
// (column sum, left to right) so the expected leaf boxes are bit-identical.
static vec3 xform(const mat3x4& m, const vec3& v) {
  vec3 o;
  for (int r = 0; r < 3; r++) o[r] = m[0][r] * v.x + m[1][r] * v.y + m[2][r] * v.z + m[3][r] * 1.0;
  return o;
}
static Box xformBox(const mat3x4& m, const Box& b) {
  vec3 a = xform(m, b.min), d = xform(m, b.max);
  Box o;
  for (int r = 0; r < 3; r++) {
    o.min[r] = std::min(a[r], d[r]);
    o.max[r] = std::max(a[r], d[r]);
  }
  return o;
}

static Box mkBox(vec3 lo, vec3 hi) {
  Box b;
  b.min = lo;
  b.max = hi;
  return b;
}

// ------------------------------------------------------------------ exhaustive
// Space S = axis in {x,y,z} x n in {2..5} x sorted code multisets of size n
// over the code values {0,1,2,3} x one of the 10 closed intervals
// [a,b], 0<=a<=b<=3 per leaf on `axis` (the other two axes are [0,0] for every
// leaf and every query: a degenerate bounding box).
// For each collider: all 10 query intervals, 7 point queries (0,0.5,..,3),
// the self-collision query, then the same 10 box queries after Transform by
// the mirror x -> 3-x on `axis`, after UpdateBoxes with the leaf boxes rotated
// by one position, and on an untouched copy.
// A block = 1000 consecutive box assignments (100 for n=2).
static const int kIv[10][2] = {{0, 0}, {0, 1}, {0, 2}, {0, 3}, {1, 1}, {1, 2}, {1, 3}, {2, 2}, {2, 3}, {3, 3}};
static const int kNumCodeVals = 4;

static void multisets(int n, std::vector<std::vector<uint32_t>>& out) {
  std::vector<uint32_t> cur(n, 0);
  // non-decreasing sequences of length n over 0..kNumCodeVals-1
  std::function<void(int, uint32_t)> rec = [&](int pos, uint32_t lo) {
    if (pos == n) {
      out.push_back(cur);
      return;
    }
    for (uint32_t v = lo; v < (uint32_t)kNumCodeVals; v++) {
      cur[pos] = v;
      rec(pos + 1, v);
    }
  };
  rec(0, 0);
}

struct ExhSpace {
  std::vector<std::vector<uint32_t>> ms[6];
  long blocksPerAxis = 0;
  long firstBlock[6] = {0, 0, 0, 0, 0, 0};  // first block index of n within an axis
  long blocksOfN[6] = {0, 0, 0, 0, 0, 0};
  long configsPerAxis = 0;
  ExhSpace() {
    for (int n = 2; n <= 5; n++) {
      multisets(n, ms[n]);
      long boxBlocks = n == 2 ? 1 : (n == 3 ? 1 : (n == 4 ? 10 : 100));
      firstBlock[n] = blocksPerAxis;
      blocksOfN[n] = (long)ms[n].size() * boxBlocks;
      blocksPerAxis += blocksOfN[n];
      long p = 1;
      for (int i = 0; i < n; i++) p *= 10;
      configsPerAxis += (long)ms[n].size() * p;
    }
  }
  long totalBlocks() const { return 3 * blocksPerAxis; }
};
static ExhSpace* gExh = nullptr;

static bool exhConfig(vh::Ctx& c, int axis, int n, const std::vector<uint32_t>& codes, long boxIdx) {
  ColCase cc;
  cc.style = "exh-axis" + std::to_string(axis);
  cc.mstyle = "exh";
  cc.codes = codes;
  cc.leaves.resize(n);
  long b = boxIdx;
  for (int i = 0; i < n; i++) {
    const int* iv = kIv[b % 10];
    b /= 10;
    vec3 lo(0.0), hi(0.0);
    lo[axis] = iv[0];
    hi[axis] = iv[1];
    cc.leaves[i] = mkBox(lo, hi);
  }
  static std::vector<Box> qb;
  static std::vector<vec3> qp;
  static int qaxis = -1;
  if (qaxis != axis) {
    qb.clear();
    qp.clear();
    for (int k = 0; k < 10; k++) {
      vec3 lo(0.0), hi(0.0);
      lo[axis] = kIv[k][0];
      hi[axis] = kIv[k][1];
      qb.push_back(mkBox(lo, hi));
    }
    for (int k = 0; k <= 6; k++) {
      vec3 p(0.0);
      p[axis] = 0.5 * k;
      qp.push_back(p);
    }
    qaxis = axis;
  }
  Vec<Box> lb(cc.leaves);
  Vec<uint32_t> lm(cc.codes);
  Collider col(lb, lm);
  c.count("exh_colliders");
  if (!checkQueries<false>(c, col, cc, qb, qb.size(), "build", "box", 0, false)) return false;
  if (!checkQueries<false>(c, col, cc, qp, qp.size(), "build", "point", 0, false)) return false;
  if (!checkQueries<true>(c, col, cc, cc.leaves, cc.leaves.size(), "build", "box", 0, false)) return false;
  Collider orig = col;
  ColCase cc0 = cc;
  // mirror axis: x -> 3 - x
  mat3x4 m;
  for (int col_ = 0; col_ < 4; col_++)
    for (int r = 0; r < 3; r++) m[col_][r] = (col_ == r) ? 1.0 : 0.0;
  m[axis][axis] = -1.0;
  m[3][axis] = 3.0;
  col.Transform(m);
  for (auto& l : cc.leaves) l = xformBox(m, l);
  if (!checkQueries<false>(c, col, cc, qb, qb.size(), "transform", "box", 1, false)) return false;
  // UpdateBoxes: original boxes rotated by one leaf
  std::vector<Box> nb(n);
  for (int i = 0; i < n; i++) nb[i] = cc0.leaves[(i + 1) % n];
  Vec<Box> nbv(nb);
  col.UpdateBoxes(nbv);
  cc.leaves = nb;
  if (!checkQueries<false>(c, col, cc, qb, qb.size(), "update", "box", 0, false)) return false;
  if (!checkQueries<false>(c, orig, cc0, qb, qb.size(), "copy-orig", "box", 0, false)) return false;
  return true;
}

static void exhCase(vh::Ctx& c) {
  ExhSpace& S = *gExh;
  long total = S.totalBlocks();
  long blk = c.idx;
  if (c.cases != total) {
    // sampling run: spread the blocks over the whole space (stride coprime)
    long stride = 7919;
    auto gcd = [](long a, long b) { while (b) { long t = a % b; a = b; b = t; } return a; };
    while (gcd(stride, total) != 1) stride++;
    blk = (long)(((unsigned long long)c.idx * (unsigned long long)stride + 17) % (unsigned long long)total);
  }
  int axis = (int)(blk / S.blocksPerAxis);
  long r = blk % S.blocksPerAxis;
  int n = 5;
  for (int k = 2; k <= 5; k++)
    if (r >= S.firstBlock[k] && r < S.firstBlock[k] + S.blocksOfN[k]) n = k;
  r -= S.firstBlock[n];
  long boxBlocks = n <= 3 ? 1 : (n == 4 ? 10 : 100);
  long per = n == 2 ? 100 : 1000;
  const std::vector<uint32_t>& codes = S.ms[n][r / boxBlocks];
  long hi = r % boxBlocks;
  bool ok = true;
  long done = 0;
  for (long lo = 0; lo < per && ok; lo++) {
    ok = exhConfig(c, axis, n, codes, hi * per + lo);
    done++;
  }
  c.count("exh_configs_enumerated", done);
  c.maxi("exh_configs_total", 3 * S.configsPerAxis);
  c.maxi("exh_blocks_total", total);
  if (ok) c.sig("exh:" + std::to_string(blk));
  if (c.idx == 0)
    c.sample(vh::J().s("mode", "exh").i("block", blk).i("axis", axis).i("n", n).raw("codes", vh::jarr(codes)).str());
}

// ------------------------------------------------------------- random colliders
static double pickScale(vh::Rng& r) {
  static const double s[] = {1e-9, 1e-6, 1e-3, 0.1, 1, 1, 1, 10, 1e3, 1e6, 1e9};
  return s[r.below(11)];
}

static void genLeaves(vh::Rng& r, int n, ColCase& cc, int& styleId) {
  int style = styleId = r.range(0, 6);
  cc.leaves.resize(n);
  static const char* names[] = {"lattice", "random", "identical", "flat", "points", "clustered", "nested"};
  cc.style = names[style];
  double S = pickScale(r);
  auto rnd3 = [&](double s) { return vec3(r.uni(-s, s), r.uni(-s, s), r.uni(-s, s)); };
  switch (style) {
    case 0: {  // small integer lattice: touching faces, identical boxes
      int L = (int)r.pick(std::vector<int>{1, 2, 3, 5, 10, 40});
      int E = r.range(0, 2);
      for (auto& b : cc.leaves) {
        vec3 lo(r.range(0, L), r.range(0, L), r.range(0, L));
        vec3 ex(r.range(0, E), r.range(0, E), r.range(0, E));
        b = mkBox(lo, lo + ex);
      }
      break;
    }
    case 1: {
      double e = S * std::pow(10.0, r.uni(-3, 0.3));
      for (auto& b : cc.leaves) {
        vec3 lo = rnd3(S);
        vec3 ex(r.uni(0, e), r.uni(0, e), r.uni(0, e));
        if (r.chance(0.1)) ex[r.range(0, 2)] = 0;
        b = mkBox(lo, lo + ex);
      }
      break;
    }
    case 2: {  // 1..3 distinct boxes repeated
      int k = r.range(1, 3);
      std::vector<Box> proto(k);
      for (auto& b : proto) {
        vec3 lo = rnd3(S);
        vec3 ex(r.uni(0, S), r.uni(0, S), r.uni(0, S));
        if (r.chance(0.3)) ex = vec3(0.0);
        b = mkBox(lo, lo + ex);
      }
      for (auto& b : cc.leaves) b = proto[r.below(k)];
      break;
    }
    case 3: {  // flat: one or two axes constant with zero extent (degenerate bbox)
      int flat1 = r.range(0, 2), flat2 = r.chance(0.4) ? r.range(0, 2) : flat1;
      double cst = r.chance(0.5) ? 0.0 : r.uni(-S, S);
      bool lat = r.chance(0.5);
      for (auto& b : cc.leaves) {
        vec3 lo = lat ? vec3(r.range(0, 6), r.range(0, 6), r.range(0, 6)) * S : rnd3(S);
        vec3 ex = lat ? vec3(r.range(0, 2), r.range(0, 2), r.range(0, 2)) * S : vec3(r.uni(0, S / 4), r.uni(0, S / 4), r.uni(0, S / 4));
        lo[flat1] = cst; ex[flat1] = 0;
        lo[flat2] = cst; ex[flat2] = 0;
        b = mkBox(lo, lo + ex);
      }
      break;
    }
    case 4: {  // zero-extent boxes
      bool lat = r.chance(0.5);
      int L = r.range(1, 8);
      for (auto& b : cc.leaves) {
        vec3 p = lat ? vec3(r.range(0, L), r.range(0, L), r.range(0, L)) : rnd3(S);
        b = mkBox(p, p);
      }
      if (r.chance(0.2))
        for (auto& b : cc.leaves) b = cc.leaves[0];  // a single point: fully degenerate bbox
      break;
    }
    case 5: {  // few clusters with tiny jitter: equal library Morton codes
      int k = r.range(1, 5);
      std::vector<vec3> ctr(k);
      for (auto& p : ctr) p = rnd3(S);
      double j = S * std::pow(10.0, r.uni(-9, -3));
      for (auto& b : cc.leaves) {
        vec3 lo = ctr[r.below(k)] + rnd3(j);
        vec3 ex(r.uni(0, 2 * j), r.uni(0, 2 * j), r.uni(0, 2 * j));
        b = mkBox(lo, lo + ex);
      }
      break;
    }
    default: {  // nested boxes around a common centre + a few huge ones
      vec3 ctr = rnd3(S);
      for (auto& b : cc.leaves) {
        double h = S * std::pow(10.0, r.uni(-4, 1));
        vec3 off = r.chance(0.5) ? vec3(0.0) : rnd3(h / 2);
        b = mkBox(ctr + off - vec3(h), ctr + off + vec3(h));
      }
      break;
    }
  }
}

static void genCodes(vh::Rng& r, ColCase& cc, int& mstyleId) {
  const int n = (int)cc.leaves.size();
  int ms = mstyleId = r.range(0, 7);
  static const char* names[] = {"library", "const", "few", "rand30", "rand32", "library+nocode", "runs", "library-coarse"};
  cc.mstyle = names[ms];
  std::vector<uint32_t> code(n);
  Box bb;
  for (auto& b : cc.leaves) bb = bb.Union(b);
  switch (ms) {
    case 0:
    case 5:
    case 7: {
      Box use = bb;
      if (ms == 7) {  // bbox much larger than the set: all codes collapse to few cells
        vec3 sz = bb.Size();
        double g = std::max({sz.x, sz.y, sz.z, 1e-300}) * r.uni(50, 5000);
        use.min = bb.min - vec3(g);
        use.max = bb.max + vec3(g);
      }
      for (int i = 0; i < n; i++) code[i] = Collider::MortonCode(cc.leaves[i].Center(), use);
      if (ms == 5)
        for (int i = 0; i < n; i++)
          if (r.chance(0.3)) code[i] = 0xFFFFFFFFu;  // sort.cpp kNoCode
      break;
    }
    case 1: {
      uint32_t v = r.chance(0.3) ? 0u : (r.chance(0.3) ? 0xFFFFFFFFu : (uint32_t)r.next());
      for (auto& x : code) x = v;
      break;
    }
    case 2: {
      int k = r.range(2, 4);
      std::vector<uint32_t> vals(k);
      bool small = r.chance(0.5);
      for (int i = 0; i < k; i++) vals[i] = small ? (uint32_t)r.below(8) : (uint32_t)(r.next() & 0x3FFFFFFFu);
      for (auto& x : code) x = vals[r.below(k)];
      break;
    }
    case 3:
      for (auto& x : code) x = (uint32_t)(r.next() & 0x3FFFFFFFu);
      break;
    case 4:
      for (auto& x : code) x = (uint32_t)r.next();
      break;
    default: {  // runs of duplicates
      uint32_t v = (uint32_t)(r.next() & 0x3FFFFFFFu);
      double pNew = r.uni(0.02, 0.5);
      for (auto& x : code) {
        if (r.chance(pNew)) v = r.chance(0.5) ? v + 1 + (uint32_t)r.below(3) : (uint32_t)(r.next() & 0x3FFFFFFFu);
        x = v;
      }
      break;
    }
  }
  // establish the precondition the way sort.cpp does: stable sort by code,
  // permute the boxes with it
  std::vector<int> ord(n);
  for (int i = 0; i < n; i++) ord[i] = i;
  std::stable_sort(ord.begin(), ord.end(), [&](int a, int b) { return code[a] < code[b]; });
  std::vector<Box> nl(n);
  cc.codes.resize(n);
  for (int i = 0; i < n; i++) {
    nl[i] = cc.leaves[ord[i]];
    cc.codes[i] = code[ord[i]];
  }
  cc.leaves.swap(nl);
}

static void genQueries(vh::Rng& r, const std::vector<Box>& leaves, int nq, std::vector<Box>& qb, std::vector<vec3>& qp) {
  Box bb;
  for (auto& b : leaves) bb = bb.Union(b);
  vec3 sz = bb.Size();
  double ext = std::max({sz.x, sz.y, sz.z});
  if (!(ext > 0)) ext = std::max(1e-12, bb.Scale());
  auto rndIn = [&]() {
    return vec3(bb.min.x + r.uni(-0.1, 1.1) * sz.x, bb.min.y + r.uni(-0.1, 1.1) * sz.y, bb.min.z + r.uni(-0.1, 1.1) * sz.z);
  };
  qb.resize(nq);
  qp.resize(nq);
  for (int i = 0; i < nq; i++) {
    const Box& l = leaves[r.below(leaves.size())];
    const Box& l2 = leaves[r.below(leaves.size())];
    switch (r.range(0, 9)) {
      case 0: qb[i] = l; break;                                  // identical to a leaf
      case 1: qb[i] = mkBox(l.max, l.max + (l2.max - l2.min)); break;  // touches a leaf corner exactly
      case 2: qb[i] = mkBox(l.min - (l2.max - l2.min), l.min); break;
      case 3: { vec3 p = rndIn(); qb[i] = mkBox(p, p); break; }   // zero extent
      case 4: qb[i] = mkBox(bb.min - vec3(ext), bb.max + vec3(ext)); break;  // contains everything
      case 5: qb[i] = mkBox(bb.max + vec3(ext), bb.max + vec3(2 * ext)); break;  // far away
      case 6: { // shares exactly one face coordinate with a leaf on one axis
        Box q = l2;
        int a = r.range(0, 2);
        double w = q.max[a] - q.min[a];
        q.min[a] = l.max[a];
        q.max[a] = l.max[a] + w;
        qb[i] = q;
        break;
      }
      case 7: qb[i] = mkBox(l.min, l2.max.x >= l.min.x && l2.max.y >= l.min.y && l2.max.z >= l.min.z ? l2.max : l.max); break;
      default: {
        vec3 p = rndIn();
        double e = ext * std::pow(10.0, r.uni(-4, 0));
        qb[i] = mkBox(p, p + vec3(r.uni(0, e), r.uni(0, e), r.uni(0, e)));
      }
    }
    switch (r.range(0, 4)) {
      case 0: qp[i] = l.min; break;
      case 1: qp[i] = l.max; break;
      case 2: qp[i] = vec3(l.min.x, l2.max.y, r.uni(-1, 1)); break;
      case 3: qp[i] = l.Center(); break;
      default: qp[i] = rndIn();
    }
  }
}

static mat3x4 genAxisAligned(vh::Rng& r, bool exact) {
  int perm[3] = {0, 1, 2};
  for (int i = 2; i > 0; i--) std::swap(perm[i], perm[r.below(i + 1)]);
  mat3x4 m;
  for (int col_ = 0; col_ < 4; col_++)
    for (int row = 0; row < 3; row++) m[col_][row] = 0.0;
  static const double sc[] = {1, -1, 2, -2, 0.5, -0.5, 4, -0.25};
  for (int row = 0; row < 3; row++) {
    double s = exact ? sc[r.below(8)] : (r.chance(0.5) ? sc[r.below(8)] : (r.chance(0.5) ? 1 : -1) * std::pow(10.0, r.uni(-3, 3)));
    m[perm[row]][row] = s;
    m[3][row] = exact ? (double)r.range(-4, 4) : r.normalish() * std::pow(10.0, r.uni(-3, 3));
  }
  return m;
}

// A leaf set whose radix tree is as DEEP as the construction allows: one pair
// of codes per Morton bit (2^b, 2^b+1) forms a ladder on which both children
// are internal at every level, and a long run of identical codes at the bottom
// adds log2(run) index-tie-break levels (up to 30 + 32 in principle). Every
// box contains the origin, so a covering query keeps one pending stack entry
// per level of the traversal.
static void makeDeep(vh::Rng& r, ColCase& cc, int n) {
  static const int runs[] = {2, 33, 64, 130, 700, 3000, 9000};
  int run = std::max(2, std::min(runs[r.below(7)], n - 60));
  std::vector<uint32_t> code;
  const uint32_t mask = r.chance(0.5) ? 0u : ((uint32_t)r.next() & 0x3FFFFFFFu);
  for (int i = 0; i < run; i++) code.push_back(0u ^ mask);
  for (int b = 1; b < 30; b++) {
    code.push_back((1u << b) ^ mask);
    code.push_back(((1u << b) | 1u) ^ mask);
  }
  while ((int)code.size() < n) code.push_back((uint32_t)r.next() & 0x3FFFFFFFu);
  code.resize(n);
  std::sort(code.begin(), code.end());
  cc.codes = code;
  cc.leaves.resize(n);
  for (auto& b : cc.leaves) b = mkBox(vec3(-r.uni(0.01, 1), -r.uni(0.01, 1), -r.uni(0.01, 1)), vec3(r.uni(0.01, 1), r.uni(0.01, 1), r.uni(0.01, 1)));
  cc.style = "all-contain-origin";
  cc.mstyle = "deep-ladder";
}

static void colliderCase(vh::Rng& r, vh::Ctx& c) {
  const long maxLeaves = c.iparam("maxLeaves", 2000);
  const long minLeaves = c.iparam("minLeaves", 2);
  const long budget = c.iparam("pairBudget", 2000000);
  const bool par = c.iparam("par", 0) != 0;
  int n;
  double u = r.uni();
  if (minLeaves > 2) n = (int)(minLeaves + r.below(maxLeaves - minLeaves + 1));
  else if (u < 0.35) n = r.range(2, 16);
  else if (u < 0.8) n = r.range(17, (int)std::min<long>(400, maxLeaves));
  else n = r.range(2, (int)maxLeaves);
  ColCase cc;
  int styleId, mstyleId;
  genLeaves(r, n, cc, styleId);
  genCodes(r, cc, mstyleId);
  const bool deep = n >= 62 && r.chance(0.12);
  if (deep) {
    makeDeep(r, cc, n);
    styleId = 90;
    mstyleId = 90;
    c.count("deep_ladder_colliders");
  }
  int distinct = 1;
  for (int i = 1; i < n; i++) distinct += cc.codes[i] != cc.codes[i - 1];

  int nq = (int)std::max<long>(1, std::min<long>(par ? 2000 : 300, budget / n));
  if (!par) nq = r.range(1, nq);
  else if (nq < 600) nq = 600;  // cross kSequentialThreshold = 512 in PAR builds
  std::vector<Box> qb;
  std::vector<vec3> qp;
  genQueries(r, cc.leaves, nq, qb, qp);
  if (r.chance(0.2)) qb[r.below(nq)] = Box();  // the documented "empty" query box (early exit)
  if (deep) {  // queries that overlap every leaf: the traversal must descend everywhere
    qb[0] = mkBox(vec3(-2.0), vec3(2.0));
    qp[0] = vec3(0.0);
  }

  c.site("Collider::Collider");
  Vec<Box> lb(cc.leaves);
  Vec<uint32_t> lm(cc.codes);
  Collider col(lb, lm);
  c.count("colliders_built");
  c.maxi("max_leaves", n);
  c.site("Collider::Collisions");
  bool ok = checkQueries<false>(c, col, cc, qb, nq, "build", "box", r.range(0, 1), par) &&
            checkQueries<false>(c, col, cc, qp, nq, "build", "point", r.range(0, 1), par);
  size_t nself = std::min<size_t>(n, std::max<long>(1, budget / n));
  ok = ok && checkQueries<true>(c, col, cc, cc.leaves, nself, "build", "box", nself == (size_t)n ? r.range(0, 1) : 1, par);
  if (!ok) return;
  long long expPairs0 = c.counters["collider_pairs_expected"];

  Collider orig = col;  // impl.cpp: result.collider_ = collider_; result.collider_.Transform(...)
  ColCase cc0 = cc;
  bool exact = styleId == 0 || r.chance(0.3);
  int rounds = r.range(1, 3);
  for (int k = 0; k < rounds && ok; k++) {
    if (r.chance(0.6)) {
      mat3x4 m = genAxisAligned(r, exact);
      if (!Collider::IsAxisAligned(m)) { c.inconclusive("generator produced a non-axis-aligned matrix"); return; }
      c.site("Collider::Transform");
      col.Transform(m);
      for (auto& l : cc.leaves) l = xformBox(m, l);
      c.count("transforms");
      genQueries(r, cc.leaves, nq, qb, qp);
      c.site("Collider::Collisions");
      ok = checkQueries<false>(c, col, cc, qb, nq, "transform", "box", r.range(0, 1), par) &&
           checkQueries<false>(c, col, cc, qp, nq, "transform", "point", 0, par) &&
           checkQueries<true>(c, col, cc, cc.leaves, nself, "transform", "box", 1, par);
    } else {
      ColCase nc;
      int s2;
      genLeaves(r, n, nc, s2);
      if (r.chance(0.3))  // a shuffled version of the current boxes
        for (int i = 0; i < n; i++) nc.leaves[i] = cc.leaves[r.below(n)];
      c.site("Collider::UpdateBoxes");
      Vec<Box> nb(nc.leaves);
      col.UpdateBoxes(nb);
      cc.leaves = nc.leaves;
      cc.style = cc.style + "->" + nc.style;
      c.count("updates");
      genQueries(r, cc.leaves, nq, qb, qp);
      c.site("Collider::Collisions");
      ok = checkQueries<false>(c, col, cc, qb, nq, "update", "box", r.range(0, 1), par) &&
           checkQueries<false>(c, col, cc, qp, nq, "update", "point", 0, par) &&
           checkQueries<true>(c, col, cc, cc.leaves, nself, "update", "box", 1, par);
    }
  }
  if (!ok) return;
  genQueries(r, cc0.leaves, nq, qb, qp);
  ok = checkQueries<false>(c, orig, cc0, qb, nq, "copy-orig", "box", 0, par);
  if (!ok) return;
  long long expPairs = c.counters["collider_pairs_expected"] - expPairs0;
  if (expPairs0 > 0 || expPairs > 0) {
    int lb2 = 0;
    for (int x = n; x > 1; x >>= 1) lb2++;
    int db = 0;
    for (int x = distinct; x > 1; x >>= 1) db++;
    c.sig("col:" + std::to_string(styleId) + ":" + std::to_string(mstyleId) + ":" + std::to_string(lb2) + ":" + std::to_string(db));
  } else
    c.count("collider_cases_without_any_overlap");
  if (c.idx % 211 == 0)
    c.sample(vh::J().s("mode", "collider").i("idx", c.idx).i("n", n).i("distinct_codes", distinct).s("coord_style", cc0.style)
                 .s("morton_style", cc0.mstyle).i("queries", nq).raw("first_leaves", jlist(cc0.leaves, 3)).str());
}

// -------------------------------------------------------------------- 2D BVH
static Box2 mkBox2(vec2 lo, vec2 hi) {
  Box2 b;
  b.min = lo;
  b.max = hi;
  return b;
}

static void genBoxes2(vh::Rng& r, int n, std::vector<Box2>& out, int& style) {
  style = r.range(0, 4);
  out.resize(n);
  double S = pickScale(r);
  switch (style) {
    case 0: {
      int L = (int)r.pick(std::vector<int>{1, 2, 3, 6, 20});
      int E = r.range(0, 2);
      for (auto& b : out) {
        vec2 lo(r.range(0, L), r.range(0, L));
        b = mkBox2(lo, lo + vec2(r.range(0, E), r.range(0, E)));
      }
      break;
    }
    case 1: {
      double e = S * std::pow(10.0, r.uni(-3, 0.3));
      for (auto& b : out) {
        vec2 lo(r.uni(-S, S), r.uni(-S, S));
        b = mkBox2(lo, lo + vec2(r.uni(0, e), r.uni(0, e)));
      }
      break;
    }
    case 2: {
      int k = r.range(1, 3);
      std::vector<Box2> proto(k);
      for (auto& b : proto) {
        vec2 lo(r.uni(-S, S), r.uni(-S, S));
        b = mkBox2(lo, r.chance(0.3) ? lo : lo + vec2(r.uni(0, S), r.uni(0, S)));
      }
      for (auto& b : out) b = proto[r.below(k)];
      break;
    }
    case 3: {  // degenerate bbox: all on one vertical/horizontal line, or one point
      int ax = r.range(0, 1);
      bool pt = r.chance(0.2);
      double cst = r.uni(-S, S);
      for (auto& b : out) {
        vec2 lo(r.uni(-S, S), r.uni(-S, S)), ex(r.uni(0, S / 3), r.uni(0, S / 3));
        lo[ax] = cst;
        ex[ax] = 0;
        if (pt) { lo = vec2(cst, cst); ex = vec2(0.0); }
        b = mkBox2(lo, lo + ex);
      }
      break;
    }
    default: {
      int k = r.range(1, 4);
      std::vector<vec2> ctr(k);
      for (auto& p : ctr) p = vec2(r.uni(-S, S), r.uni(-S, S));
      double j = S * std::pow(10.0, r.uni(-9, -3));
      for (auto& b : out) {
        vec2 lo = ctr[r.below(k)] + vec2(r.uni(-j, j), r.uni(-j, j));
        b = mkBox2(lo, lo + vec2(r.uni(0, 2 * j), r.uni(0, 2 * j)));
      }
    }
  }
}

static bool checkBvh(vh::Ctx& c, const std::vector<Box2>& boxes, const std::vector<Box2>& qs, const char* what, int style, bool par) {
  c.site("BVHBuildFromBoxes");
  BVH bvh = BVHBuildFromBoxes(boxes);
  const int n = (int)boxes.size();
  auto fail = [&](const std::string& key, vh::J& d) {
    d.i("n", n).i("style", style).raw("boxes", jlist(boxes, 40));
    c.violation(key, d.str());
    return false;
  };
  // leafToOrig must be a permutation of 0..n-1
  {
    std::vector<int> seen(n, 0);
    bool perm = (int)bvh.leafToOrig.size() == n;
    for (int i = 0; perm && i < n; i++) {
      int o = bvh.leafToOrig[i];
      if (o < 0 || o >= n || seen[o]++) perm = false;
    }
    if (!perm) {
      vh::J d;
      return fail(std::string("bvh2d:") + what + ":leafToOrig-not-a-permutation", d);
    }
  }
  Pairs exp;
  for (size_t q = 0; q < qs.size(); q++)
    for (int l = 0; l < n; l++)
      if (ovB2(boxes[l], qs[q])) exp.emplace_back((int)q, l);
  c.count("bvh2d_queries", (long long)qs.size());
  c.count("bvh2d_pairs_expected", (long long)exp.size());
  c.count("bvh2d_pair_tests", (long long)qs.size() * n);
  for (int form = 0; form < 2; form++) {
    Pairs got;
    if (form == 0) {
      c.site("BVHCollisions");
      LockRec rec;
      auto qf = [&](int i) { return qs[i]; };
      BVHCollisions(bvh, rec, qf, (int)qs.size(), par);
      rec.finish();
      c.heartbeat();
      for (auto& p : rec.all) {
        if (p.second < 0 || p.second >= n) {
          vh::J d;
          d.i("leaf", p.second);
          return fail(std::string("bvh2d:") + what + ":leaf-index-out-of-range", d);
        }
        got.emplace_back(p.first, bvh.leafToOrig[p.second]);
      }
    } else {
      c.site("CollidePairs");
      CollidePairs(bvh, qs, [&](int q, int orig) { got.emplace_back(q, orig); });
    }
    std::pair<int, int> bad;
    std::string why = diffPairs(got, exp, bad);
    if (!why.empty()) {
      vh::J d;
      d.s("why", why).s("api", form == 0 ? "BVHCollisions" : "CollidePairs").i("bad_query", bad.first).i("bad_box", bad.second)
          .i("got", (long long)got.size()).i("expected", (long long)exp.size());
      if (bad.first >= 0 && bad.first < (int)qs.size()) d.raw("query", jb(qs[bad.first]));
      if (bad.second >= 0 && bad.second < n) d.raw("box", jb(boxes[bad.second]));
      return fail(std::string("bvh2d:") + what + ":" + why + (form ? ":CollidePairs" : ":BVHCollisions"), d);
    }
  }
  return true;
}

static void bvh2dCase(vh::Rng& r, vh::Ctx& c) {
  const long maxN = c.iparam("maxBoxes", 2500);
  const bool par = c.iparam("par", 0) != 0;
  // ---- part A: arbitrary boxes through BVHBuildFromBoxes/BVHCollisions/CollidePairs
  int n;
  double u = r.uni();
  if (par) n = r.range((int)std::min<long>(maxN, 10500), (int)maxN);
  else if (u < 0.4) n = r.range(2, 12);
  else if (u < 0.85) n = r.range(13, (int)std::min<long>(300, maxN));
  else n = r.range(2, (int)maxN);
  std::vector<Box2> boxes, qs, tmp;
  int style, s2;
  genBoxes2(r, n, boxes, style);
  int nq = par ? r.range(600, 900) : r.range(1, (int)std::max<long>(1, std::min<long>(200, 1500000 / n)));
  genBoxes2(r, nq, tmp, s2);
  qs.resize(nq);
  Box2 bb = boxes[0];
  for (auto& b : boxes) bb = bb.Union(b);
  for (int i = 0; i < nq; i++) {
    const Box2& l = boxes[r.below(n)];
    const Box2& l2 = boxes[r.below(n)];
    switch (r.range(0, 6)) {
      case 0: qs[i] = l; break;
      case 1: qs[i] = mkBox2(l.max, l.max + (l2.max - l2.min)); break;
      case 2: qs[i] = mkBox2(l.min - (l2.max - l2.min), l.min); break;
      case 3: qs[i] = mkBox2(bb.min, bb.max); break;
      case 4: { vec2 p(r.uni(bb.min.x, bb.max.x), r.uni(bb.min.y, bb.max.y)); qs[i] = mkBox2(p, p); break; }
      case 5: qs[i] = tmp[i]; break;
      default: {
        vec2 p(r.uni(bb.min.x, bb.max.x), r.uni(bb.min.y, bb.max.y));
        vec2 sz = bb.max - bb.min;
        double f = std::pow(10.0, r.uni(-3, 0));
        qs[i] = mkBox2(p, p + vec2(r.uni(0, f * sz.x), r.uni(0, f * sz.y)));
      }
    }
  }
  if (!checkBvh(c, boxes, qs, "boxes", style, par)) return;
  c.count("bvh2d_built");
  long long ep = c.counters["bvh2d_pairs_expected"];

  // ---- part B: the edge-pair broad phase
  int nE;
  u = r.uni();
  if (par) nE = r.range(1024, 2600);
  else if (u < 0.3) nE = r.range(0, 10);
  else if (u < 0.8) nE = r.range(11, 300);
  else nE = r.range(301, (int)std::min<long>(2600, maxN + 100));  // crosses kEdgePairBvhThreshold = 1024
  int estyle = r.range(0, 3);
  std::vector<vec2> verts;
  std::vector<EdgeM> edges;
  double S = estyle == 2 ? 1.0 : pickScale(r);
  double eps;
  switch (r.range(0, 3)) {
    case 0: eps = 0; break;
    case 1: eps = 1e-12 * S; break;
    case 2: eps = 0.01 * S; break;
    default: eps = 0.5 * S;
  }
  if (estyle == 0) {  // closed rings: consecutive edges share endpoints
    while ((int)edges.size() < nE) {
      int k = std::min(nE - (int)edges.size(), r.range(3, 40));
      if (k < 2) k = 2;
      vec2 ctr(r.uni(-S, S), r.uni(-S, S));
      double rad = S * std::pow(10.0, r.uni(-2, 0));
      int base = (int)verts.size();
      for (int i = 0; i < k; i++) {
        double a = 6.283185307179586 * i / k;
        verts.push_back(ctr + rad * r.uni(0.5, 1.0) * vec2(std::cos(a), std::sin(a)));
      }
      for (int i = 0; i < k; i++) edges.push_back({base + i, base + (i + 1) % k, 1});
    }
  } else if (estyle == 1) {  // random segments over a shared vertex pool
    int nV = std::max(2, nE / r.range(1, 3) + 2);
    for (int i = 0; i < nV; i++) verts.push_back(vec2(r.uni(-S, S), r.uni(-S, S)));
    double loc = r.chance(0.5) ? 1.0 : 0.05;
    for (int i = 0; i < nE; i++) {
      int a = (int)r.below(nV), b;
      do {
        b = loc < 1 ? std::min(nV - 1, std::max(0, a + r.range(-3, 3))) : (int)r.below(nV);
        if (loc < 1 && b == a) b = (a + 1) % nV;
      } while (b == a);
      edges.push_back({a, b, r.range(1, 2)});
    }
  } else if (estyle == 2) {  // unit lattice segments: touching boxes, shared endpoints, collinear overlaps
    int L = r.range(2, 12);
    for (int y = 0; y <= L; y++)
      for (int x = 0; x <= L; x++) verts.push_back(vec2(x, y));
    for (int i = 0; i < nE; i++) {
      int x = r.range(0, L), y = r.range(0, L);
      int dx = 0, dy = 0;
      int len = r.range(1, 3);
      if (r.chance(0.5)) dx = len; else dy = len;
      if (r.chance(0.2)) { dx = len; dy = r.range(1, 2); }
      int x2 = std::min(L, x + dx), y2 = std::min(L, y + dy);
      if (x2 == x && y2 == y) { if (x > 0) x2 = x - 1; else x2 = x + 1; }
      int a = y * (L + 1) + x, b = y2 * (L + 1) + x2;
      if (r.chance(0.5)) std::swap(a, b);
      edges.push_back({a, b, 1});
    }
  } else {  // a long x-monotone chain plus its slightly shifted copy (sweep-order stress)
    int k = nE / 2;
    double y0 = r.uni(-S, S);
    for (int rep = 0; rep < 2; rep++) {
      int base = (int)verts.size();
      for (int i = 0; i <= k; i++) verts.push_back(vec2(S * (2.0 * i / std::max(1, k) - 1), y0 + rep * eps * r.uni(0, 3) + S * 0.01 * r.uni(-1, 1)));
      for (int i = 0; i < k; i++) edges.push_back({base + i, base + i + 1, 1});
    }
  }
  nE = (int)edges.size();
  std::vector<Box2> eb(nE);
  for (int e = 0; e < nE; e++) {
    vec2 p0 = verts[edges[e].v0], p1 = verts[edges[e].v1];
    vec2 lo(std::min(p0.x, p1.x) - eps, std::min(p0.y, p1.y) - eps);
    vec2 hi(std::max(p0.x, p1.x) + eps, std::max(p0.y, p1.y) + eps);
    eb[e] = mkBox2(lo, hi);
    Box2 lib = BoxOf2DEdge(p0, p1, eps);
    if (lib.min.x != lo.x || lib.min.y != lo.y || lib.max.x != hi.x || lib.max.y != hi.y) {
      c.violation("bvh2d:BoxOf2DEdge:not-the-padded-bounding-box",
                  vh::J().raw("lib", jb(lib)).raw("expected", jb(eb[e])).d("eps", eps).str());
      return;
    }
  }
  c.site("CollectIntersectionPairs:sweep");
  Pairs sweep, viaBvh;
  BVH none;
  CollectIntersectionPairs(edges, verts, eps, eb, none, sweep);
  c.site("CollectIntersectionPairs:bvh");
  BVH bvh = BVHBuildFromBoxes(eb);
  CollectIntersectionPairs(edges, verts, eps, eb, bvh, viaBvh);
  c.count("edgepair_calls", 2);
  auto efail = [&](const std::string& key, vh::J& d) {
    d.i("nE", nE).i("edge_style", estyle).d("eps", eps);
    std::string es = "[";
    for (int e = 0; e < nE && e < 60; e++) {
      char t[200];
      snprintf(t, sizeof t, "%s[%d,%d,%.17g,%.17g,%.17g,%.17g]", e ? "," : "", edges[e].v0, edges[e].v1, verts[edges[e].v0].x,
               verts[edges[e].v0].y, verts[edges[e].v1].x, verts[edges[e].v1].y);
      es += t;
    }
    d.raw("edges_v0_v1_x0_y0_x1_y1", es + "]");
    c.violation(key, d.str());
  };
  long long overl = 0, skippedShared = 0;
  // brute-force scan once: all overlapping pairs i<j in lexicographic order
  Pairs ovl;
  for (int i = 0; i < nE; i++)
    for (int j = i + 1; j < nE; j++)
      if (ovB2(eb[i], eb[j])) ovl.emplace_back(i, j);
  overl = (long long)ovl.size();
  for (int pass = 0; pass < 2; pass++) {
    const Pairs& got = pass ? viaBvh : sweep;
    const char* pname = pass ? "bvh" : "sweep";
    Pairs s = got;
    std::sort(s.begin(), s.end());
    if (s != got) c.count(std::string("edgepair_output_not_lex_sorted_") + pname);
    for (size_t i = 0; i < s.size(); i++) {
      auto p = s[i];
      std::string why;
      if (p.first < 0 || p.second >= nE || p.first >= p.second) why = "pair-not-first<second-in-range";
      else if (i && s[i - 1] == p) why = "duplicate";
      else if (!ovB2(eb[p.first], eb[p.second])) why = "extra";
      if (!why.empty()) {
        vh::J d;
        d.s("why", why).i("first", p.first).i("second", p.second);
        efail(std::string("edgepair:") + pname + ":" + why, d);
        return;
      }
    }
    // every overlapping pair that is not reported must share an endpoint
    Pairs miss;
    std::set_difference(ovl.begin(), ovl.end(), s.begin(), s.end(), std::back_inserter(miss));
    for (auto& pr : miss) {
      const EdgeM &a = edges[pr.first], &b = edges[pr.second];
      bool shared = a.v0 == b.v0 || a.v0 == b.v1 || a.v1 == b.v0 || a.v1 == b.v1;
      if (!shared) {
        vh::J d;
        d.s("why", "missing").i("first", pr.first).i("second", pr.second).raw("box_first", jb(eb[pr.first])).raw("box_second", jb(eb[pr.second]));
        efail(std::string("edgepair:") + pname + ":missing", d);
        return;
      }
    }
    if (pass == 0) skippedShared = (long long)miss.size();
  }
  {
    Pairs a = sweep, b = viaBvh;
    std::sort(a.begin(), a.end());
    std::sort(b.begin(), b.end());
    if (a != b) {
      Pairs d1;
      std::set_symmetric_difference(a.begin(), a.end(), b.begin(), b.end(), std::back_inserter(d1));
      vh::J d;
      d.s("why", "sweep path and BVH path disagree").i("first", d1[0].first).i("second", d1[0].second)
          .i("n_sweep", (long long)a.size()).i("n_bvh", (long long)b.size());
      efail("edgepair:paths-differ", d);
      return;
    }
    if (sweep == viaBvh) c.count("edgepair_sequences_identical");
  }
  c.count("edgepair_overlapping_pairs", overl);
  c.count("edgepair_reported_pairs", (long long)sweep.size());
  c.count("edgepair_unreported_shared_endpoint_pairs", skippedShared);
  c.count("edgepair_pair_tests", (long long)nE * (nE - 1) / 2);
  if (nE >= 1024) c.count("edgepair_cases_ge_1024_edges");
  if (ep > 0 || overl > 0) {
    int lb2 = 0;
    for (int x = std::max(n, nE); x > 1; x >>= 1) lb2++;
    c.sig("bvh2d:" + std::to_string(style) + ":" + std::to_string(estyle) + ":" + std::to_string(lb2) + ":" + (eps > 0 ? "e" : "0") +
          (overl ? "o" : "-"));
  }
  if (c.idx % 157 == 0)
    c.sample(vh::J().s("mode", "bvh2d").i("idx", c.idx).i("boxes", n).i("queries", nq).i("edges", nE).d("eps", eps)
                 .i("edge_pairs_reported", (long long)sweep.size()).str());
}

// -------------------------------------------------------------------- 2D tree
static void tree2dCase(vh::Rng& r, vh::Ctx& c) {
  const long maxN = c.iparam("maxPoints", 3000);
  int n;
  double u = r.uni();
  if (u < 0.25) n = r.range(0, 9);  // <= 8 is the no-tree path
  else if (u < 0.8) n = r.range(9, (int)std::min<long>(200, maxN));
  else n = r.range(9, (int)maxN);
  int style = r.range(0, 4);
  double S = pickScale(r);
  std::vector<PolyVert> pts(n);
  int L = r.range(1, 12);
  for (int i = 0; i < n; i++) {
    vec2 p;
    switch (style) {
      case 0: p = vec2(r.range(0, L), r.range(0, L)); break;             // duplicate coordinates
      case 1: p = vec2(r.uni(-S, S), r.uni(-S, S)); break;
      case 2: p = vec2(r.range(0, 2) * S, r.uni(-S, S)); break;           // few distinct x
      case 3: p = vec2(r.uni(-S, S), 0.0); break;                         // all on a line
      default: p = i && r.chance(0.6) ? pts[r.below(i)].pos : vec2(r.uni(-S, S), r.uni(-S, S));  // exact duplicates
    }
    pts[i] = {p, i};
  }
  Vec<PolyVert> tree(pts);
  c.site("BuildTwoDTree");
  BuildTwoDTree(tree);
  c.count("trees_built");
  Rect bb;
  for (auto& p : pts) bb.Union(p.pos);
  if (n == 0) bb = Rect(vec2(0.0), vec2(1.0));
  int nq = r.range(1, 40);
  long long expTotal = 0;
  for (int q = 0; q < nq; q++) {
    Rect rc;
    vec2 sz = bb.Size();
    auto rp = [&]() { return vec2(bb.min.x + r.uni(-0.1, 1.1) * sz.x, bb.min.y + r.uni(-0.1, 1.1) * sz.y); };
    switch (r.range(0, 6)) {
      case 0: { vec2 p = n ? pts[r.below(n)].pos : rp(); rc = Rect(p, p); break; }              // a point that exists
      case 1: rc = bb; break;
      case 2: { vec2 a = n ? pts[r.below(n)].pos : rp(), b = n ? pts[r.below(n)].pos : rp(); rc = Rect(a, b); break; }  // borders on points
      case 3: rc = Rect(bb.max + vec2(1.0) * (1 + bb.Scale()), bb.max + vec2(2.0) * (1 + bb.Scale())); break;            // far away
      case 4: { vec2 p = rp(); rc = Rect(p, p); break; }
      case 5: rc = Rect(vec2(-1e300), vec2(1e300)); break;
      default: rc = Rect(rp(), rp());
    }
    std::vector<int> exp, got;
    for (auto& p : pts)
      if (rc.min.x <= p.pos.x && p.pos.x <= rc.max.x && rc.min.y <= p.pos.y && p.pos.y <= rc.max.y) exp.push_back(p.idx);
    bool badIdx = false;
    vec2 badPos(0.0);
    c.site("QueryTwoDTree");
    QueryTwoDTree(tree, rc, [&](PolyVert p) {
      if (p.idx < 0 || p.idx >= n || pts[p.idx].pos.x != p.pos.x || pts[p.idx].pos.y != p.pos.y) { badIdx = true; badPos = p.pos; }
      got.push_back(p.idx);
    });
    std::sort(got.begin(), got.end());
    c.count("tree2d_queries");
    c.count("tree2d_points_expected", (long long)exp.size());
    c.count("tree2d_point_tests", n);
    expTotal += (long long)exp.size();
    std::string why;
    int bad = -1;
    if (badIdx) why = "reported-point-not-in-input";
    else if (got != exp) {
      std::vector<int> d;
      std::set_difference(exp.begin(), exp.end(), got.begin(), got.end(), std::back_inserter(d));
      if (!d.empty()) { why = "missing"; bad = d[0]; }
      else {
        std::set_difference(got.begin(), got.end(), exp.begin(), exp.end(), std::back_inserter(d));
        bad = d.empty() ? -1 : d[0];
        why = (bad >= 0 && !std::binary_search(exp.begin(), exp.end(), bad)) ? "extra" : "duplicate";
      }
    }
    if (!why.empty()) {
      std::string ps = "[";
      for (int i = 0; i < n && i < 80; i++) {
        char t[100];
        snprintf(t, sizeof t, "%s[%.17g,%.17g]", i ? "," : "", pts[i].pos.x, pts[i].pos.y);
        ps += t;
      }
      vh::J d;
      d.s("why", why).i("n", n).i("style", style).i("bad_point_idx", bad).i("got", (long long)got.size()).i("expected", (long long)exp.size());
      char t[300];
      snprintf(t, sizeof t, "[%.17g,%.17g,%.17g,%.17g]", rc.min.x, rc.min.y, rc.max.x, rc.max.y);
      d.raw("rect", t).raw("points", ps + "]");
      c.violation("tree2d:" + why + (n <= 8 ? ":small" : ":tree"), d.str());
      return;
    }
  }
  if (expTotal > 0) {
    int lb2 = 0;
    for (int x = n; x > 1; x >>= 1) lb2++;
    c.sig("tree2d:" + std::to_string(style) + ":" + std::to_string(lb2) + ":" + std::to_string(std::min<long long>(3, expTotal / std::max(1, n))));
  }
  if (c.idx % 301 == 0) c.sample(vh::J().s("mode", "tree2d").i("idx", c.idx).i("n", n).i("style", style).i("queries", nq).str());
}

void vh_init(vh::Ctx& c) {
  if (c.param("mode", "collider") == "exh") {
    gExh = new ExhSpace();
    if (c.tier == "thorough" && c.cases != gExh->totalBlocks() && c.worker == 0 && c.only < 0)
      c.inconclusive("exhaustive stage run with " + std::to_string(c.cases) + " blocks instead of all " +
                     std::to_string(gExh->totalBlocks()) + ": the thorough tier must enumerate the whole space");
  }
}

void vh_case(vh::Ctx& c) {
  std::string mode = c.param("mode", "collider");
  if (mode == "exh") exhCase(c);
  else if (mode == "collider") colliderCase(c.rng, c);
  else if (mode == "bvh2d") bvh2dCase(c.rng, c);
  else if (mode == "tree2d") tree2dCase(c.rng, c);
  else c.inconclusive("unknown mode " + mode);
}
