// vshim_threaded.h — THREADED mode of the TBB shim (DESIGN.md §2.2, §9):
// the same API surface on a pool of real std::threads built from
// std::mutex / std::condition_variable / std::atomic only, so that
// ThreadSanitizer sees every synchronisation edge the library relies on
// (the prebuilt libtbb.so is uninstrumented and unusable under TSan).
//
// Scheduling: every parallel construct creates a Region; its chunks are queued
// globally; pool threads execute any queued chunk; the calling thread helps
// with chunks OF ITS OWN REGION only (that is what this_task_arena::isolate
// promises, and it makes nested parallelism deadlock-free) and then waits for
// in-flight chunks of that region.
//
// Legal-but-simple protocols are used for reduce and scan: all body splits are
// made up-front on the calling thread ("every right child was stolen before
// anything ran"), leaves run concurrently on their own bodies, joins /
// reverse_joins happen on the calling thread in range order. So a report from
// this mode is a race between two chunks of library code (or between a chunk
// and its caller), never an artefact of body hand-off.
#pragma once
#include <algorithm>
#include <atomic>
#include <condition_variable>
#include <cstdint>
#include <cstdlib>
#include <deque>
#include <functional>
#include <map>
#include <memory>
#include <mutex>
#include <thread>
#include <unordered_map>
#include <utility>
#include <vector>

namespace tbb {

struct split {};

namespace vshim {

struct Region {
  std::mutex m;
  std::condition_variable cv;
  int pending = 0;  // queued + running chunks
};

struct Task {
  Region* region;
  std::function<void()> fn;
};

struct Pool {
  std::mutex m;
  std::condition_variable cv;
  std::deque<Task> q;
  std::vector<std::thread> threads;
  bool stop = false;
  int nThreads = 0;
  std::atomic<uint64_t> rng{0x853c49e6748fea9bull};
  std::atomic<uint64_t> chunksRun{0}, regions{0};

  Pool() {
    const char* e = getenv("VSHIM_THREADS");
    nThreads = e ? atoi(e) : 3;
    if (nThreads < 0) nThreads = 0;
    for (int i = 0; i < nThreads; i++) threads.emplace_back([this] { workerLoop(); });
  }
  ~Pool() {
    {
      std::lock_guard<std::mutex> l(m);
      stop = true;
    }
    cv.notify_all();
    for (auto& t : threads) t.join();
  }
  uint64_t rnd() {
    uint64_t z = rng.fetch_add(0x9e3779b97f4a7c15ull, std::memory_order_relaxed) + 0x9e3779b97f4a7c15ull;
    z = (z ^ (z >> 30)) * 0xbf58476d1ce4e5b9ull;
    z = (z ^ (z >> 27)) * 0x94d049bb133111ebull;
    return z ^ (z >> 31);
  }
  static void finish(Region* r) {
    std::lock_guard<std::mutex> l(r->m);
    if (--r->pending == 0) r->cv.notify_all();
  }
  void runTask(Task& t) {
    chunksRun.fetch_add(1, std::memory_order_relaxed);
    t.fn();
    finish(t.region);
  }
  void workerLoop() {
    for (;;) {
      Task t;
      {
        std::unique_lock<std::mutex> l(m);
        cv.wait(l, [this] { return stop || !q.empty(); });
        if (stop && q.empty()) return;
        t = std::move(q.front());
        q.pop_front();
      }
      runTask(t);
    }
  }
  void submit(Region* r, std::function<void()> fn) {
    {
      std::lock_guard<std::mutex> l(r->m);
      r->pending++;
    }
    {
      std::lock_guard<std::mutex> l(m);
      q.push_back(Task{r, std::move(fn)});
    }
    cv.notify_one();
  }
  // help with own region's chunks, then wait for the in-flight ones
  void helpAndWait(Region* r) {
    for (;;) {
      Task t;
      bool got = false;
      {
        std::lock_guard<std::mutex> l(m);
        for (auto it = q.begin(); it != q.end(); ++it)
          if (it->region == r) {
            t = std::move(*it);
            q.erase(it);
            got = true;
            break;
          }
      }
      if (!got) break;
      runTask(t);
    }
    std::unique_lock<std::mutex> l(r->m);
    r->cv.wait(l, [r] { return r->pending == 0; });
  }
};

inline Pool& pool() {
  static Pool p;
  return p;
}
inline bool coin(double p = 0.5) { return (pool().rnd() >> 11) * (1.0 / 9007199254740992.0) < p; }

template <typename Range>
void splitLeaves(Range r, int depthLeft, std::vector<Range>& out) {
  if (depthLeft > 0 && r.is_divisible() && coin(0.85)) {
    Range right(r, split());
    splitLeaves(r, depthLeft - 1, out);
    splitLeaves(right, depthLeft - 1, out);
  } else {
    out.push_back(r);
  }
}
inline int leafDepth() { return 2 + (int)(pool().rnd() % 4); }  // 4..32 leaves

}  // namespace vshim

// ------------------------------------------------------------ blocked_range
template <typename Value>
class blocked_range {
 public:
  using const_iterator = Value;
  using size_type = std::size_t;
  blocked_range(Value b, Value e, size_type g = 1) : my_end(e), my_begin(b), my_grainsize(g) {}
  const_iterator begin() const { return my_begin; }
  const_iterator end() const { return my_end; }
  size_type size() const { return size_type(my_end - my_begin); }
  size_type grainsize() const { return my_grainsize; }
  bool empty() const { return !(my_begin < my_end); }
  bool is_divisible() const { return my_grainsize < size(); }
  blocked_range(blocked_range& r, split) : my_end(r.my_end), my_begin(do_split(r)), my_grainsize(r.my_grainsize) {}

 private:
  Value my_end, my_begin;
  size_type my_grainsize;
  static Value do_split(blocked_range& r) {
    Value middle = r.my_begin + (r.my_end - r.my_begin) / 2u;
    r.my_end = middle;
    return middle;
  }
};

struct auto_partitioner {};
struct simple_partitioner {};
struct static_partitioner {};
struct affinity_partitioner {};

// ------------------------------------------------------------ parallel_for
template <typename Range, typename Body, typename Partitioner>
void parallel_for(const Range& range, const Body& body, Partitioner&&) {
  if (range.empty()) return;
  vshim::pool().regions.fetch_add(1, std::memory_order_relaxed);
  std::vector<Range> leaves;
  vshim::splitLeaves(range, vshim::leafDepth(), leaves);
  vshim::Region reg;
  for (size_t i = 1; i < leaves.size(); i++) {
    const Range* l = &leaves[i];
    vshim::pool().submit(&reg, [l, &body] { body(*l); });
  }
  body(leaves[0]);
  vshim::pool().helpAndWait(&reg);
}
template <typename Range, typename Body>
void parallel_for(const Range& range, const Body& body) {
  parallel_for(range, body, auto_partitioner());
}

// ------------------------------------------------------------ parallel_invoke
template <typename F0, typename F1>
void parallel_invoke(const F0& f0, const F1& f1) {
  vshim::Region reg;
  vshim::pool().submit(&reg, [&f1] { f1(); });
  f0();
  vshim::pool().helpAndWait(&reg);
}

// ------------------------------------------------------------ parallel_reduce
template <typename Range, typename Body>
void parallel_reduce(const Range& range, Body& body) {
  if (range.empty()) return;
  std::vector<Range> leaves;
  vshim::splitLeaves(range, vshim::leafDepth(), leaves);
  const size_t k = leaves.size();
  // bodies[0] is the caller's; the others are split off up-front, right from left
  std::vector<std::unique_ptr<Body>> owned;
  std::vector<Body*> bodies(k);
  bodies[0] = &body;
  for (size_t i = 1; i < k; i++) {
    owned.emplace_back(new Body(*bodies[i - 1], split()));
    bodies[i] = owned.back().get();
  }
  vshim::Region reg;
  for (size_t i = 1; i < k; i++) {
    Range* l = &leaves[i];
    Body* b = bodies[i];
    vshim::pool().submit(&reg, [l, b] { (*b)(*l); });
  }
  (*bodies[0])(leaves[0]);
  vshim::pool().helpAndWait(&reg);
  // joins in range order, right into left (any bracketing is legal for an
  // associative join; this is the left-leaning one)
  for (size_t i = 1; i < k; i++) bodies[0]->join(*bodies[i]);
}
template <typename Range, typename Body, typename Partitioner>
void parallel_reduce(const Range& range, Body& body, Partitioner&&) {
  parallel_reduce(range, body);
}

namespace vshim {
template <typename Range, typename Value, typename RealBody, typename Reduction>
class lambda_reduce_body {
  const Value& identity;
  const RealBody& real_body;
  const Reduction& reduction;
  Value value;

 public:
  lambda_reduce_body(const Value& id, const RealBody& rb, const Reduction& red)
      : identity(id), real_body(rb), reduction(red), value(id) {}
  lambda_reduce_body(lambda_reduce_body& o, split)
      : identity(o.identity), real_body(o.real_body), reduction(o.reduction), value(o.identity) {}
  void operator()(Range& r) { value = real_body(r, const_cast<const Value&>(value)); }
  void join(lambda_reduce_body& rhs) { value = reduction(const_cast<const Value&>(value), const_cast<const Value&>(rhs.value)); }
  Value result() const { return value; }
};
}  // namespace vshim

template <typename Range, typename Value, typename RealBody, typename Reduction>
Value parallel_reduce(const Range& range, const Value& identity, const RealBody& real_body, const Reduction& reduction) {
  vshim::lambda_reduce_body<Range, Value, RealBody, Reduction> body(identity, real_body, reduction);
  parallel_reduce(range, body);
  return body.result();
}

// ------------------------------------------------------------ parallel_scan
struct pre_scan_tag {
  static bool is_final_scan() { return false; }
  operator bool() { return is_final_scan(); }
};
struct final_scan_tag {
  static bool is_final_scan() { return true; }
  operator bool() { return is_final_scan(); }
};

template <typename Range, typename Body>
void parallel_scan(const Range& range, Body& body) {
  if (range.empty()) return;
  std::vector<Range> leaves;
  vshim::splitLeaves(range, vshim::leafDepth(), leaves);
  const size_t k = leaves.size();
  if (k == 1) {
    body(leaves[0], final_scan_tag());
    return;
  }
  // pre[i] (i>=1): split bodies that pre-scan leaf i; leaf 0 is final-scanned
  // directly by the caller's body (it already holds the initial sum).
  std::vector<std::unique_ptr<Body>> pre(k);
  Body* prev = &body;
  for (size_t i = 1; i < k; i++) {
    pre[i].reset(new Body(*prev, split()));
    prev = pre[i].get();
  }
  {
    vshim::Region reg;
    for (size_t i = 1; i + 1 < k; i++) {  // the last leaf's partial sum is never needed
      Range* l = &leaves[i];
      Body* b = pre[i].get();
      vshim::pool().submit(&reg, [l, b] { (*b)(*l, pre_scan_tag()); });
    }
    body(leaves[0], final_scan_tag());
    vshim::pool().helpAndWait(&reg);
  }
  // fin[i]: fresh split body whose sum becomes the prefix before leaf i
  std::vector<std::unique_ptr<Body>> fin(k);
  Body* left = &body;  // holds the sum through leaf i-1
  for (size_t i = 1; i < k; i++) {
    fin[i].reset(new Body(*pre[i], split()));
    fin[i]->reverse_join(*left);  // fin.sum = left.sum (+) identity
    if (i + 1 < k) {
      pre[i]->reverse_join(*left);  // pre[i].sum = prefix through leaf i
      left = pre[i].get();
    }
  }
  {
    vshim::Region reg;
    for (size_t i = 1; i < k; i++) {
      Range* l = &leaves[i];
      Body* b = fin[i].get();
      vshim::pool().submit(&reg, [l, b] { (*b)(*l, final_scan_tag()); });
    }
    vshim::pool().helpAndWait(&reg);
  }
  body.assign(*fin[k - 1]);
}

namespace vshim {
template <typename Range, typename Value, typename ScanF, typename ReverseJoin>
class lambda_scan_body {
  Value m_sum_slot;
  const Value& identity_element;
  const ScanF& m_scan;
  const ReverseJoin& m_reverse_join;

 public:
  lambda_scan_body(const Value& identity, const ScanF& scan, const ReverseJoin& rev_join)
      : m_sum_slot(identity), identity_element(identity), m_scan(scan), m_reverse_join(rev_join) {}
  lambda_scan_body(lambda_scan_body& b, split)
      : m_sum_slot(b.identity_element), identity_element(b.identity_element), m_scan(b.m_scan), m_reverse_join(b.m_reverse_join) {}
  template <typename Tag>
  void operator()(const Range& r, Tag tag) { m_sum_slot = m_scan(r, m_sum_slot, tag); }
  void reverse_join(lambda_scan_body& a) { m_sum_slot = m_reverse_join(a.m_sum_slot, m_sum_slot); }
  void assign(lambda_scan_body& b) { m_sum_slot = b.m_sum_slot; }
  Value result() const { return m_sum_slot; }
};
}  // namespace vshim

template <typename Range, typename Value, typename ScanF, typename ReverseJoin>
Value parallel_scan(const Range& range, const Value& identity, const ScanF& scan, const ReverseJoin& reverse_join) {
  vshim::lambda_scan_body<Range, Value, ScanF, ReverseJoin> body(identity, scan, reverse_join);
  parallel_scan(range, body);
  return body.result();
}

// ------------------------------------------------------------ combinable
template <typename T>
class combinable {
  std::function<T()> finit;
  mutable std::mutex m;
  mutable std::map<std::thread::id, std::unique_ptr<T>> slots;

 public:
  combinable() : finit([] { return T(); }) {}
  template <typename F>
  explicit combinable(F f) : finit(f) {}
  combinable(const combinable& o) : finit(o.finit) {
    std::lock_guard<std::mutex> l(o.m);
    for (auto& kv : o.slots) slots[kv.first].reset(new T(*kv.second));
  }
  combinable(combinable&& o) : finit(std::move(o.finit)) {
    std::lock_guard<std::mutex> l(o.m);
    slots = std::move(o.slots);
  }
  combinable& operator=(const combinable& o) {
    if (this != &o) {
      std::scoped_lock l(m, o.m);
      finit = o.finit;
      slots.clear();
      for (auto& kv : o.slots) slots[kv.first].reset(new T(*kv.second));
    }
    return *this;
  }
  combinable& operator=(combinable&& o) {
    if (this != &o) {
      std::scoped_lock l(m, o.m);
      finit = std::move(o.finit);
      slots = std::move(o.slots);
    }
    return *this;
  }
  void clear() {
    std::lock_guard<std::mutex> l(m);
    slots.clear();
  }
  T& local() {
    bool e;
    return local(e);
  }
  T& local(bool& exists) {
    std::lock_guard<std::mutex> l(m);
    auto id = std::this_thread::get_id();
    auto it = slots.find(id);
    exists = it != slots.end();
    if (!exists) it = slots.emplace(id, std::unique_ptr<T>(new T(finit()))).first;
    return *it->second;
  }
  template <typename F>
  void combine_each(F f) {
    std::lock_guard<std::mutex> l(m);
    for (auto& kv : slots) f(*kv.second);
  }
  template <typename F>
  T combine(F f) {
    std::lock_guard<std::mutex> l(m);
    if (slots.empty()) return finit();
    auto it = slots.begin();
    T acc = *it->second;
    for (++it; it != slots.end(); ++it) acc = f(acc, *it->second);
    return acc;
  }
};

// ------------------------------------------------------------ task_group
class task_group {
  vshim::Region reg;

 public:
  task_group() = default;
  task_group(const task_group&) = delete;
  template <typename F>
  void run(F&& f) {
    vshim::pool().submit(&reg, std::function<void()>(std::forward<F>(f)));
  }
  void wait() { vshim::pool().helpAndWait(&reg); }
  ~task_group() { vshim::pool().helpAndWait(&reg); }
};

// ------------------------------------------------------------ arena
namespace this_task_arena {
inline int max_concurrency() { return vshim::pool().nThreads + 1; }
template <typename F>
auto isolate(const F& f) -> decltype(f()) {
  return f();
}
}  // namespace this_task_arena

// ------------------------------------------------------------ containers
// node-based, reference-stable, every access under one mutex (like TBB's,
// references to mapped values stay valid across concurrent insertions)
template <typename Map>
class locked_map {
  Map map_;
  mutable std::mutex m;

 public:
  using key_type = typename Map::key_type;
  using mapped_type = typename Map::mapped_type;
  using value_type = typename Map::value_type;
  using iterator = typename Map::iterator;
  using const_iterator = typename Map::const_iterator;
  locked_map() = default;
  mapped_type& operator[](const key_type& k) {
    std::lock_guard<std::mutex> l(m);
    return map_[k];
  }
  template <typename... A>
  std::pair<iterator, bool> emplace(A&&... a) {
    std::lock_guard<std::mutex> l(m);
    return map_.emplace(std::forward<A>(a)...);
  }
  std::pair<iterator, bool> insert(const value_type& v) {
    std::lock_guard<std::mutex> l(m);
    return map_.insert(v);
  }
  iterator find(const key_type& k) {
    std::lock_guard<std::mutex> l(m);
    return map_.find(k);
  }
  const_iterator find(const key_type& k) const {
    std::lock_guard<std::mutex> l(m);
    return map_.find(k);
  }
  iterator begin() { return map_.begin(); }
  iterator end() { return map_.end(); }
  const_iterator begin() const { return map_.begin(); }
  const_iterator end() const { return map_.end(); }
  size_t size() const {
    std::lock_guard<std::mutex> l(m);
    return map_.size();
  }
  bool empty() const { return size() == 0; }
  void clear() {
    std::lock_guard<std::mutex> l(m);
    map_.clear();
  }
};
template <typename K, typename V, typename C = std::less<K>>
using concurrent_map = locked_map<std::map<K, V, C>>;
template <typename K, typename V, typename H = std::hash<K>, typename E = std::equal_to<K>>
using concurrent_unordered_map = locked_map<std::unordered_map<K, V, H, E>>;

}  // namespace tbb

namespace oneapi {
namespace tbb = ::tbb;
}
