#pragma once
#include "vshim.h"
