// vshim.h — header-only re-implementation of the part of oneTBB that
// /repo uses (DESIGN.md §2.2), ADVERSARIAL SINGLE-THREAD MODE.
//
// Every decision a TBB scheduler is free to make is drawn from a seeded PRNG
// and folded into a trace hash:
//   * how far a blocked_range is split (TBB's own midpoint rule, only while
//     is_divisible()), and in which order the leaves execute;
//   * which (virtual) worker executes a task — this selects the
//     tbb::combinable slot — with W = max_concurrency() virtual workers;
//   * parallel_reduce: whether a right child runs before its left sibling has
//     finished (=> it gets a split body, joined later) or after (=> it reuses
//     the left body), exactly as oneTBB's start_reduce does;
//   * parallel_scan: a task-level port of oneTBB 2021.8's
//     start_scan / sum_node / final_sum / finish_scan protocol, with
//     is_stolen() and the execution order of ready tasks randomised;
//   * combinable::combine_each order, parallel_invoke order, task_group::run
//     immediate vs deferred and the order of deferred tasks.
// The code of /repo runs unmodified on top of this; what this mode cannot
// produce is two chunks interleaving *inside* a chunk (that is a data race —
// ThreadSanitizer's job), see DESIGN.md.
#pragma once
#if defined(VSHIM_THREADED)
#include "vshim_threaded.h"
#else
#include <algorithm>
#include <cstdint>
#include <cstdlib>
#include <functional>
#include <map>
#include <memory>
#include <unordered_map>
#include <utility>
#include <vector>

namespace tbb {

struct split {};

namespace vshim {

struct State {
  uint64_t s = 0x1234567887654321ull;
  int W = 4;              // virtual worker count == max_concurrency()
  int curWorker = 0;      // worker executing the current task
  int depth = 0;          // nesting depth of parallel regions
  uint64_t trace = 0xcbf29ce484222325ull;  // hash of all decisions taken
  // observation counters (read by harnesses for evidence)
  uint64_t regions = 0, leaves = 0, steals = 0, bodySplits = 0, joins = 0,
           scanPre = 0, scanFinal = 0, scanReverseJoin = 0, scanAssign = 0,
           combSlots = 0, combineEach = 0, invokes = 0, groupRuns = 0,
           groupDeferred = 0, decisions = 0;
  int maxLeavesLog2 = 8;  // cap on split depth per region
  double pSplit = 0.8;
  bool seeded = false;
};

inline State& st() {
  static State s;
  if (!s.seeded) {
    s.seeded = true;
    const char* e = getenv("VSHIM_SEED");
    uint64_t seed = e ? strtoull(e, nullptr, 10) : 1;
    s.s = seed * 0x9e3779b97f4a7c15ull + 0x632be59bd9b4e019ull;
    s.W = 1 + (int)((s.s >> 33) % 16);
  }
  return s;
}

inline uint64_t rnd() {
  State& t = st();
  uint64_t z = (t.s += 0x9e3779b97f4a7c15ull);
  z = (z ^ (z >> 30)) * 0xbf58476d1ce4e5b9ull;
  z = (z ^ (z >> 27)) * 0x94d049bb133111ebull;
  return z ^ (z >> 31);
}
inline void note(uint64_t d) {
  State& t = st();
  t.trace = (t.trace ^ d) * 0x100000001b3ull;
  t.decisions++;
}
inline uint64_t below(uint64_t n) {
  uint64_t v = n ? rnd() % n : 0;
  note(v + 0x51);
  return v;
}
inline bool coin(double p = 0.5) {
  bool b = (rnd() >> 11) * (1.0 / 9007199254740992.0) < p;
  note(b ? 0xA1 : 0xB2);
  return b;
}

// (Re)seed: harnesses call this per case so that a schedule replays exactly.
inline void reseed(uint64_t seed, int W = 0) {
  State& t = st();
  t.seeded = true;
  t.s = seed * 0x9e3779b97f4a7c15ull + 0x632be59bd9b4e019ull;
  rnd();
  t.W = W > 0 ? W : 1 + (int)(rnd() % 16);
  t.curWorker = 0;
  t.trace = 0xcbf29ce484222325ull;
  static const double ps[] = {0.35, 0.6, 0.8, 0.93, 1.0};
  t.pSplit = ps[rnd() % 5];
  t.maxLeavesLog2 = 2 + (int)(rnd() % 9);
}

struct RegionScope {
  int saved;
  RegionScope() : saved(st().curWorker) {
    st().depth++;
    st().regions++;
  }
  ~RegionScope() {
    st().curWorker = saved;
    st().depth--;
  }
};
inline void pickWorker() { st().curWorker = (int)below((uint64_t)st().W); }

// A pool of ready tasks executed in random order on random virtual workers.
struct Pool {
  std::vector<std::function<void()>> ready;
  void spawn(std::function<void()> f) { ready.push_back(std::move(f)); }
  void drain() {
    while (!ready.empty()) {
      size_t i = (size_t)below(ready.size());
      std::function<void()> f = std::move(ready[i]);
      ready[i] = std::move(ready.back());
      ready.pop_back();
      pickWorker();
      f();
    }
  }
};

// Split `r` by the Range's own splitting constructor down to a random depth,
// collecting leaves left-to-right.
template <typename Range>
void splitLeaves(Range r, int depthLeft, std::vector<Range>& out) {
  if (depthLeft > 0 && r.is_divisible() && coin(st().pSplit)) {
    Range right(r, split());
    splitLeaves(r, depthLeft - 1, out);
    splitLeaves(right, depthLeft - 1, out);
  } else {
    out.push_back(r);
  }
}

}  // namespace vshim

// ------------------------------------------------------------ blocked_range
template <typename Value>
class blocked_range {
 public:
  using const_iterator = Value;
  using size_type = std::size_t;
  blocked_range(Value b, Value e, size_type g = 1) : my_end(e), my_begin(b), my_grainsize(g) {}
  const_iterator begin() const { return my_begin; }
  const_iterator end() const { return my_end; }
  size_type size() const { return size_type(my_end - my_begin); }
  size_type grainsize() const { return my_grainsize; }
  bool empty() const { return !(my_begin < my_end); }
  bool is_divisible() const { return my_grainsize < size(); }
  blocked_range(blocked_range& r, split) : my_end(r.my_end), my_begin(do_split(r)), my_grainsize(r.my_grainsize) {}

 private:
  Value my_end, my_begin;
  size_type my_grainsize;
  static Value do_split(blocked_range& r) {
    Value middle = r.my_begin + (r.my_end - r.my_begin) / 2u;
    r.my_end = middle;
    return middle;
  }
};

// ------------------------------------------------------------ partitioners
struct auto_partitioner {};
struct simple_partitioner {};
struct static_partitioner {};
struct affinity_partitioner {};

// ------------------------------------------------------------ parallel_for
template <typename Range, typename Body, typename Partitioner>
void parallel_for(const Range& range, const Body& body, Partitioner&&) {
  if (range.empty()) return;
  vshim::RegionScope scope;
  std::vector<Range> leaves;
  vshim::splitLeaves(range, vshim::st().maxLeavesLog2, leaves);
  // random execution order
  for (size_t i = leaves.size(); i > 1; i--) std::swap(leaves[i - 1], leaves[vshim::below(i)]);
  for (auto& l : leaves) {
    vshim::pickWorker();
    vshim::st().leaves++;
    body(l);
  }
}
template <typename Range, typename Body>
void parallel_for(const Range& range, const Body& body) {
  parallel_for(range, body, auto_partitioner());
}

// ------------------------------------------------------------ parallel_invoke
template <typename F0, typename F1>
void parallel_invoke(const F0& f0, const F1& f1) {
  vshim::RegionScope scope;
  vshim::st().invokes++;
  if (vshim::coin()) {
    vshim::pickWorker();
    f0();
    vshim::pickWorker();
    f1();
  } else {
    vshim::pickWorker();
    f1();
    vshim::pickWorker();
    f0();
  }
}

// ------------------------------------------------------------ parallel_reduce
namespace vshim {
template <typename Body>
struct RNode {
  RNode* parent;
  int refCount = 2;
  Body* leftBody;
  Body* zombie = nullptr;
};

template <typename Range, typename Body>
struct Reducer {
  Pool pool;
  void finalize(RNode<Body>* n) {
    while (n) {
      if (--n->refCount > 0) return;
      if (n->zombie) {
        st().joins++;
        n->leftBody->join(*n->zombie);
        delete n->zombie;
      }
      RNode<Body>* up = n->parent;
      delete n;
      n = up;
    }
  }
  // mirrors oneTBB start_reduce::execute: decide the body when the task starts,
  // split off right children, then run the leaf.
  void start(Range r, Body* body, RNode<Body>* parent, bool isRight, int depthLeft) {
    if (isRight && parent->refCount == 2) {
      // left sibling has not finished: "stolen" => own split body
      st().bodySplits++;
      st().steals++;
      body = new Body(*body, split());
      parent->zombie = body;
    }
    while (depthLeft > 0 && r.is_divisible() && coin(st().pSplit)) {
      RNode<Body>* node = new RNode<Body>{parent, 2, body, nullptr};
      Range right(r, split());
      depthLeft--;
      int dl = depthLeft;
      pool.spawn([this, right, body, node, dl] { start(right, body, node, true, dl); });
      parent = node;
    }
    // leaf execution is a separate ready task so that other tasks may run first
    pool.spawn([this, r, body, parent]() mutable {
      st().leaves++;
      (*body)(r);
      finalize(parent);
    });
  }
};
}  // namespace vshim

template <typename Range, typename Body>
void parallel_reduce(const Range& range, Body& body) {
  if (range.empty()) return;
  vshim::RegionScope scope;
  vshim::Reducer<Range, Body> red;
  Range r = range;
  Body* b = &body;
  int dl = vshim::st().maxLeavesLog2;
  red.pool.spawn([&red, r, b, dl] { red.start(r, b, nullptr, false, dl); });
  red.pool.drain();
}
template <typename Range, typename Body, typename Partitioner>
void parallel_reduce(const Range& range, Body& body, Partitioner&&) {
  parallel_reduce(range, body);
}

namespace vshim {
template <typename Range, typename Value, typename RealBody, typename Reduction>
class lambda_reduce_body {
  const Value& identity;
  const RealBody& real_body;
  const Reduction& reduction;
  Value value;

 public:
  lambda_reduce_body(const Value& id, const RealBody& rb, const Reduction& red)
      : identity(id), real_body(rb), reduction(red), value(id) {}
  lambda_reduce_body(lambda_reduce_body& o, split)
      : identity(o.identity), real_body(o.real_body), reduction(o.reduction), value(o.identity) {}
  void operator()(Range& r) { value = real_body(r, const_cast<const Value&>(value)); }
  void join(lambda_reduce_body& rhs) { value = reduction(const_cast<const Value&>(value), const_cast<const Value&>(rhs.value)); }
  Value result() const { return value; }
};
}  // namespace vshim

template <typename Range, typename Value, typename RealBody, typename Reduction>
Value parallel_reduce(const Range& range, const Value& identity, const RealBody& real_body, const Reduction& reduction) {
  vshim::lambda_reduce_body<Range, Value, RealBody, Reduction> body(identity, real_body, reduction);
  parallel_reduce(range, body);
  return body.result();
}

// ------------------------------------------------------------ parallel_scan
struct pre_scan_tag {
  static bool is_final_scan() { return false; }
  operator bool() { return is_final_scan(); }
};
struct final_scan_tag {
  static bool is_final_scan() { return true; }
  operator bool() { return is_final_scan(); }
};

namespace vshim {
// Task-level port of oneapi/tbb/parallel_scan.h (2021.8). `return task` and
// `spawn(task)` of the original both become Pool::spawn: in either case the
// task is ready and may run at any later time on any thread.
template <typename Range, typename Body>
struct Scan {
  Pool pool;
  struct sum_node;
  struct final_sum;
  std::vector<final_sum*> allSums;  // freed together when the scan ends
  template <typename Src>
  final_sum* newSum(Src& src) {
    final_sum* f = new final_sum(src);
    allSums.push_back(f);
    return f;
  }
  ~Scan() {
    for (final_sum* f : allSums) delete f;
  }
  struct final_sum {
    Body m_body;
    Range* m_range = nullptr;
    Body* m_stuff_last = nullptr;
    sum_node* m_parent = nullptr;
    explicit final_sum(Body& body) : m_body(body, split()) {}
    explicit final_sum(final_sum& s) : m_body(s.m_body, split()) {}
    ~final_sum() { delete m_range; }
    void finish_construction(sum_node* parent, const Range& range, Body* stuff_last) {
      m_parent = parent;
      m_range = new Range(range);
      m_stuff_last = stuff_last;
    }
    template <typename Tag>
    void operator()(const Range& r, Tag tag) {
      if (Tag::is_final_scan()) st().scanFinal++; else st().scanPre++;
      m_body(r, tag);
    }
    void reverse_join(final_sum& a) { st().scanReverseJoin++; m_body.reverse_join(a.m_body); }
    void reverse_join(Body& body) { st().scanReverseJoin++; m_body.reverse_join(body); }
    void assign_to(Body& body) { st().scanAssign++; body.assign(m_body); }
  };
  struct sum_node {
    final_sum* m_incoming = nullptr;
    final_sum* m_body = nullptr;
    Body* m_stuff_last = nullptr;
    final_sum* m_left_sum = nullptr;
    sum_node* m_left = nullptr;
    sum_node* m_right = nullptr;
    bool m_left_is_final;
    Range m_range;
    sum_node* m_parent;
    unsigned ref_count = 0;
    sum_node(const Range& range, bool left_is_final, sum_node* parent)
        : m_left_is_final(left_is_final), m_range(range), m_parent(parent) {
      if (m_parent) m_parent->ref_count++;
    }
    void prepare_for_execution(final_sum& body, final_sum* incoming, Body* stuff_last) {
      m_body = &body;
      m_incoming = incoming;
      m_stuff_last = stuff_last;
    }
  };
  struct finish_scan {
    final_sum** m_sum_slot;
    sum_node** m_return_slot;
    final_sum* m_right_zombie = nullptr;
    sum_node& m_result;
    unsigned ref_count = 2;
    finish_scan* m_parent;
    finish_scan(sum_node** return_slot, final_sum** sum, sum_node& result, finish_scan* parent)
        : m_sum_slot(sum), m_return_slot(return_slot), m_result(result), m_parent(parent) {}
  };
  struct start_scan {
    sum_node** m_return_slot;
    Range m_range;
    final_sum* m_body;
    unsigned num_chunks;  // old_auto_partition_type
    final_sum** m_sum_slot;
    bool m_is_final;
    bool m_is_right_child;
    finish_scan* m_parent;
  };

  // ---- second pass -------------------------------------------------------
  void release_parent_sum(sum_node* parent) {
    if (parent && --parent->ref_count == 0) pool.spawn([this, parent] { exec_sum_node(parent); });
  }
  void exec_final_sum(final_sum* f) {
    (*f)(*f->m_range, final_scan_tag());
    if (f->m_stuff_last) {
      st().scanAssign++;
      f->m_stuff_last->assign(f->m_body);
    }
    sum_node* parent = f->m_parent;
    f->m_parent = nullptr;
    release_parent_sum(parent);
  }
  void create_child(sum_node* self, const Range& range, final_sum& body, sum_node* child, final_sum* incoming, Body* stuff_last) {
    if (child) {
      child->prepare_for_execution(body, incoming, stuff_last);
      pool.spawn([this, child] { exec_sum_node(child); });
    } else {
      body.finish_construction(self, range, stuff_last);
      final_sum* f = &body;
      pool.spawn([this, f] { exec_final_sum(f); });
    }
  }
  void exec_sum_node(sum_node* n) {
    if (n->m_body) {
      if (n->m_incoming) n->m_left_sum->reverse_join(*n->m_incoming);
      Range rightRange(n->m_range, split());
      unsigned cnt = 1 + (n->m_left_is_final ? 0 : 1);
      n->ref_count = cnt;
      final_sum* body = n->m_body;
      n->m_body = nullptr;
      create_child(n, rightRange, *n->m_left_sum, n->m_right, n->m_left_sum, n->m_stuff_last);
      if (!n->m_left_is_final) create_child(n, n->m_range, *body, n->m_left, n->m_incoming, nullptr);
    } else {
      sum_node* parent = n->m_parent;
      n->m_parent = nullptr;
      delete n;
      release_parent_sum(parent);
    }
  }

  // ---- first pass --------------------------------------------------------
  void release_parent_finish(finish_scan* parent) {
    if (parent && --parent->ref_count == 0) pool.spawn([this, parent] { exec_finish_scan(parent); });
  }
  void exec_finish_scan(finish_scan* f) {
    if (f->m_result.m_left) f->m_result.m_left_is_final = false;
    final_sum* right_zombie = f->m_right_zombie;
    if (right_zombie && f->m_sum_slot) (*f->m_sum_slot)->reverse_join(*f->m_result.m_left_sum);
    if (right_zombie || f->m_result.m_right) {
      *f->m_return_slot = &f->m_result;
    } else {
      sum_node* r = &f->m_result;
      if (r->m_parent) r->m_parent->ref_count--;  // ~sum_node
      delete r;
    }
    if (right_zombie && !f->m_sum_slot && !f->m_result.m_right) {
      f->m_right_zombie = nullptr;  // (object itself is freed with the scan)
    }
    finish_scan* parent = f->m_parent;
    delete f;
    release_parent_finish(parent);
  }
  void exec_start_scan(start_scan* s) {
    bool stolen = coin();
    bool treat_as_stolen = s->m_is_right_child && (stolen || s->m_body != s->m_parent->m_result.m_left_sum);
    if (treat_as_stolen) {
      st().steals++;
      final_sum* right_zombie = newSum(*s->m_body);
      s->m_parent->m_right_zombie = right_zombie;
      s->m_body = right_zombie;
      s->m_is_final = false;
    }
    // old_auto_partition_type::should_execute_range
    if (s->num_chunks < 4 && stolen) s->num_chunks = 4;
    bool should_execute = s->num_chunks == 1;
    if ((s->m_is_right_child && !treat_as_stolen) || !s->m_range.is_divisible() || should_execute) {
      if (s->m_is_final)
        (*s->m_body)(s->m_range, final_scan_tag());
      else if (s->m_sum_slot)
        (*s->m_body)(s->m_range, pre_scan_tag());
      if (s->m_sum_slot) *s->m_sum_slot = s->m_body;
      finish_scan* parent = s->m_parent;
      delete s;
      release_parent_finish(parent);
    } else {
      sum_node* result = new sum_node(s->m_range, s->m_is_final, s->m_parent ? &s->m_parent->m_result : nullptr);
      finish_scan* new_parent = new finish_scan(s->m_return_slot, s->m_sum_slot, *result, s->m_parent);
      s->m_parent = new_parent;
      // split off right child (start_scan splitting constructor)
      start_scan* right = new start_scan{&result->m_right, Range(s->m_range, split()), s->m_body, 0, s->m_sum_slot, s->m_is_final, true, s->m_parent};
      right->num_chunks = s->num_chunks = (s->num_chunks + 1u) / 2u;
      s->m_is_right_child = false;
      pool.spawn([this, right] { exec_start_scan(right); });
      s->m_sum_slot = &result->m_left_sum;
      s->m_return_slot = &result->m_left;
      pool.spawn([this, s] { exec_start_scan(s); });
    }
  }

  void run(const Range& range, Body& body) {
    if (range.empty()) return;
    sum_node* root = nullptr;
    final_sum* temp_body = newSum(body);
    temp_body->reverse_join(body);
    start_scan* pass1 = new start_scan{&root, range, temp_body, (unsigned)(2 * st().W), nullptr, true, false, nullptr};
    pool.spawn([this, pass1] { exec_start_scan(pass1); });
    pool.drain();
    if (root) {
      root->prepare_for_execution(*temp_body, nullptr, &body);
      pool.spawn([this, root] { exec_sum_node(root); });
      pool.drain();
      // temp_body: in oneTBB it is consumed as the left-most final_sum
    } else {
      temp_body->assign_to(body);
      temp_body->finish_construction(nullptr, range, nullptr);
    }
  }
};

template <typename Range, typename Value, typename ScanF, typename ReverseJoin>
class lambda_scan_body {
  Value m_sum_slot;
  const Value& identity_element;
  const ScanF& m_scan;
  const ReverseJoin& m_reverse_join;

 public:
  lambda_scan_body(const Value& identity, const ScanF& scan, const ReverseJoin& rev_join)
      : m_sum_slot(identity), identity_element(identity), m_scan(scan), m_reverse_join(rev_join) {}
  lambda_scan_body(lambda_scan_body& b, split)
      : m_sum_slot(b.identity_element), identity_element(b.identity_element), m_scan(b.m_scan), m_reverse_join(b.m_reverse_join) {}
  template <typename Tag>
  void operator()(const Range& r, Tag tag) { m_sum_slot = m_scan(r, m_sum_slot, tag); }
  void reverse_join(lambda_scan_body& a) { m_sum_slot = m_reverse_join(a.m_sum_slot, m_sum_slot); }
  void assign(lambda_scan_body& b) { m_sum_slot = b.m_sum_slot; }
  Value result() const { return m_sum_slot; }
};
}  // namespace vshim

template <typename Range, typename Body>
void parallel_scan(const Range& range, Body& body) {
  vshim::RegionScope scope;
  vshim::Scan<Range, Body> sc;
  sc.run(range, body);
}
template <typename Range, typename Value, typename ScanF, typename ReverseJoin>
Value parallel_scan(const Range& range, const Value& identity, const ScanF& scan, const ReverseJoin& reverse_join) {
  vshim::lambda_scan_body<Range, Value, ScanF, ReverseJoin> body(identity, scan, reverse_join);
  parallel_scan(range, body);
  return body.result();
}

// ------------------------------------------------------------ combinable
template <typename T>
class combinable {
  std::function<T()> finit;
  // reference-stable slots keyed by virtual worker
  mutable std::map<int, std::unique_ptr<T>> slots;

 public:
  combinable() : finit([] { return T(); }) {}
  template <typename F>
  explicit combinable(F f) : finit(f) {}
  combinable(const combinable& o) : finit(o.finit) {
    for (auto& kv : o.slots) slots[kv.first].reset(new T(*kv.second));
  }
  combinable(combinable&& o) = default;
  combinable& operator=(const combinable& o) {
    if (this != &o) {
      finit = o.finit;
      slots.clear();
      for (auto& kv : o.slots) slots[kv.first].reset(new T(*kv.second));
    }
    return *this;
  }
  combinable& operator=(combinable&& o) = default;
  void clear() { slots.clear(); }
  T& local() {
    bool e;
    return local(e);
  }
  T& local(bool& exists) {
    int w = vshim::st().curWorker;
    auto it = slots.find(w);
    exists = it != slots.end();
    if (!exists) {
      vshim::st().combSlots++;
      it = slots.emplace(w, std::unique_ptr<T>(new T(finit()))).first;
    }
    return *it->second;
  }
  template <typename F>
  void combine_each(F f) {
    vshim::st().combineEach++;
    std::vector<T*> v;
    for (auto& kv : slots) v.push_back(kv.second.get());
    for (size_t i = v.size(); i > 1; i--) std::swap(v[i - 1], v[vshim::below(i)]);
    for (T* p : v) f(*p);
  }
  template <typename F>
  T combine(F f) {
    std::vector<T*> v;
    for (auto& kv : slots) v.push_back(kv.second.get());
    if (v.empty()) return finit();
    for (size_t i = v.size(); i > 1; i--) std::swap(v[i - 1], v[vshim::below(i)]);
    T acc = *v[0];
    for (size_t i = 1; i < v.size(); i++) acc = f(acc, *v[i]);
    return acc;
  }
};

// ------------------------------------------------------------ task_group
class task_group {
  std::vector<std::function<void()>> pending;

 public:
  task_group() = default;
  task_group(const task_group&) = delete;
  ~task_group() { /* oneTBB requires wait() before destruction */ }
  template <typename F>
  void run(F&& f) {
    vshim::st().groupRuns++;
    if (vshim::coin(0.35)) {
      // another thread picks the task up at once and finishes it
      int saved = vshim::st().curWorker;
      vshim::pickWorker();
      f();
      vshim::st().curWorker = saved;
    } else {
      vshim::st().groupDeferred++;
      pending.emplace_back(std::forward<F>(f));
    }
  }
  void wait() {
    int saved = vshim::st().curWorker;
    while (!pending.empty()) {
      size_t i = (size_t)vshim::below(pending.size());
      std::function<void()> f = std::move(pending[i]);
      pending[i] = std::move(pending.back());
      pending.pop_back();
      vshim::pickWorker();
      f();
    }
    vshim::st().curWorker = saved;
  }
};

// ------------------------------------------------------------ arena
namespace this_task_arena {
inline int max_concurrency() { return vshim::st().W; }
template <typename F>
auto isolate(const F& f) -> decltype(f()) {
  return f();
}
}  // namespace this_task_arena

// ------------------------------------------------------------ containers
template <typename K, typename V, typename C = std::less<K>>
using concurrent_map = std::map<K, V, C>;
template <typename K, typename V, typename H = std::hash<K>, typename E = std::equal_to<K>>
using concurrent_unordered_map = std::unordered_map<K, V, H, E>;

}  // namespace tbb

namespace oneapi {
namespace tbb = ::tbb;
}

#endif  // VSHIM_THREADED
